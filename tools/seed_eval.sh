#!/bin/bash
# usage: tools/seed_eval.sh <Cnn> <k> [extra check ids...]
# Confirms a seeded defect delivered under /tmp/mut/<Cnn>-out/<k>/ in a scratch worktree (demo passes clean, patch
# applies, builds, repo tests pass, demo fails), then runs our checks against it.
set -u
id=$1; k=$2; shift 2
src=/tmp/mut/$id${ROUND:-}-out/$k
[ -f $src/patch.diff ] || { echo "no patch in $src"; exit 2; }
wt=/tmp/swt-$$
git -C /repo worktree add -q "$wt" HEAD || exit 2
trap 'git -C /repo worktree remove --force "$wt" 2>/dev/null' EXIT
export GOFLAGS=-mod=mod GOPROXY=off GOSUMDB=off GOTOOLCHAIN=local
( cd $src && timeout 300 bash ./run.sh "$wt" >/tmp/seed-clean-$$.log 2>&1 ); c0=$?
( cd "$wt" && git apply $src/patch.diff ) || { echo "$id/$k PATCH-DOES-NOT-APPLY"; exit 2; }
( cd "$wt" && go build ./... ) || { echo "$id/$k DOES-NOT-BUILD"; exit 2; }
( cd "$wt" && go test -vet=off -count=1 ./... >/tmp/seed-tests-$$.log 2>&1 ); t=$?
( cd $src && timeout 300 bash ./run.sh "$wt" >/tmp/seed-mut-$$.log 2>&1 ); c1=$?
echo "$id/$k demo-clean=$c0 repo-tests=$t demo-mutant=$c1 files: $(cd "$wt" && git diff --stat | tail -1)"
rm -f /tmp/seed-*-$$.log
( cd "$wt" && git checkout -q -- . && git clean -fdq )
cd /verif
tools/mutant_test.sh $src/patch.diff $id "$@"
