#!/bin/bash
# usage: tools/mutant_test.sh <patch.diff> <Cnn> [<Cnn> ...]
# Applies the patch to a scratch worktree of /repo (never to /repo itself), runs the checks against it
# (VERIF_REPO), removes the worktree.  Evidence and replay output of these runs go to a scratch directory.
# Prints one line per check: <patch> <Cnn> exit=<rc> (1 = detected).   MUTANT_TIER=thorough, MUTANT_RUN_TESTS=1 optional.
set -u
patch=$(readlink -f "$1"); shift
wt=/tmp/mwt-$$
for try in 1 2 3 4 5; do   # another run may hold the repository lock for a moment
  git -C /repo worktree add -q "$wt" HEAD 2>/dev/null && break
  sleep $try
done
[ -d "$wt" ] || { echo "$(basename $patch) WORKTREE-FAILED exit=2"; exit 2; }
trap 'git -C /repo worktree remove --force "$wt" 2>/dev/null; rm -rf /tmp/mwt-ev-$$' EXIT
cd "$wt" || exit 2
if ! git apply "$patch"; then echo "$(basename $patch) PATCH-DOES-NOT-APPLY"; exit 2; fi
export GOFLAGS=-mod=mod GOPROXY=off GOSUMDB=off GOTOOLCHAIN=local
if ! go build ./... ; then echo "$(basename $patch) DOES-NOT-BUILD"; exit 2; fi
if [ "${MUTANT_RUN_TESTS:-0}" = "1" ]; then
  go test -vet=off -count=1 ./... > /tmp/mwt-tests-$$.log 2>&1 && echo "$(basename $patch) repo-tests=pass" || { echo "$(basename $patch) repo-tests=FAIL"; grep -m5 "FAIL" /tmp/mwt-tests-$$.log; }
  rm -f /tmp/mwt-tests-$$.log
fi
cd /verif
export VERIF_MAXCONFIRM=${VERIF_MAXCONFIRM:-2}   # a mutant needs one confirmed violation, not twelve
export VERIF_REPO="$wt" VERIF_EVIDENCE_DIR=/tmp/mwt-ev-$$/evidence VERIF_REPLAY_DIR=/tmp/mwt-ev-$$/replay
for p in "$@"; do
  out=$(./check $p ${MUTANT_TIER:-quick} 2>&1); rc=$?
  echo "$(basename $patch) $p exit=$rc $(echo "$out" | grep -c '^VIOLATION') violations"
  echo "$out" | grep -m2 -A2 '^VIOLATION\|^INCONCLUSIVE' | cut -c1-300
done
