#!/bin/bash
# usage: tools/mutant_test.sh <patch.diff> <Cnn> [<Cnn> ...]
# Applies the patch to /repo's working tree, runs the quick checks, restores the tree.
# Prints one line per check: <patch> <Cnn> exit=<rc> (1 = detected).
set -u
patch=$(readlink -f "$1"); shift
cd /repo || exit 2
if [ -n "$(git status --porcelain)" ]; then echo "/repo working tree is dirty"; exit 2; fi
if ! git apply "$patch"; then echo "patch does not apply: $patch"; exit 2; fi
trap 'git -C /repo checkout -- . ; git -C /repo clean -fdq' EXIT
export GOFLAGS=-mod=mod GOPROXY=off GOSUMDB=off GOTOOLCHAIN=local
if ! go build ./... ; then echo "$(basename $patch) DOES-NOT-BUILD"; exit 2; fi
if [ "${MUTANT_RUN_TESTS:-0}" = "1" ]; then
  go test -count=1 ./... > /tmp/mutant_tests.log 2>&1 && echo "$(basename $patch) repo-tests=pass" || echo "$(basename $patch) repo-tests=FAIL"
fi
cd /verif
for p in "$@"; do
  out=$(./check $p ${MUTANT_TIER:-quick} 2>&1); rc=$?
  echo "$(basename $patch) $p exit=$rc $(echo "$out" | grep -c '^VIOLATION') violations"
  echo "$out" | grep -m2 -A2 '^VIOLATION\|^INCONCLUSIVE' | cut -c1-300
done
