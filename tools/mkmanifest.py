#!/usr/bin/env python3
"""Regenerates MANIFEST.json from the table below (single source of truth)."""
import json
import os
import subprocess

VERIF = os.path.dirname(os.path.dirname(os.path.abspath(__file__)))

# id -> (category, technique, level text, level note, design ref)
CHECKS = {
    "C03": ("model_checking",
            "TLC evaluates the LALR(1) definition (LR(1)-merge, cross-checked against a DeRemer-Pennello refinement) on look-ahead sets and warnings recorded from real yaccgo runs",
            "Bounded-exhaustive (all grammars <=3 rules over 2 NT/2 T) plus seeded random/structured families: every reduce point's recorded look-ahead set equals the TLA+ definition; warning iff a default-resolved cell exists.",
            "TLC, the Json module, the harness projection (state number -> item set, symbol id -> name); bounded populations.", "5 C03"),
    "C04": ("model_checking",
            "TLC compares each two-candidate cell of recorded dense tables with the yacc resolution rules written in TLA+ (LALR.tla: ResolveSR/ResolveRR)",
            "Every two-way conflict cell of every recorded table is checked against the precedence/associativity/default rules; rules whose precedence differs between yacc's and yaccgo's definition, n-way cells and reduce/reduce with both precedences are explicit don't-cares.",
            "Candidate sets are formed from the implementation's own look-aheads (C03 judges those).", "5 C04"),
    "C05": ("model_checking",
            "TLC checks SplitLookup(packed arrays) = dense table for every cell of recorded tables (PackTable.tla)",
            "Every (state, symbol) cell of every packed table recorded from real runs returns the dense entry when looked up as the generated Action() does.",
            "The TLA+ SplitLookup mirrors the template's Action(); behaviour-level packed-vs-unpacked comparison is added by the run campaign.", "5 C05"),
    "C09": ("model_checking",
            "TLC compares recorded LR0Closure (item sets, goto lists) with the canonical LR(0) collection defined as a fixpoint in LR0.tla",
            "Set equality with the canonical collection, no duplicates, exact transitions, state 0 = start closure, on exhaustive small grammars and random families.",
            "TLC, harness projection.", "5 C09"),
    "C12": ("model_checking",
            "TLC checks recorded outcome (generated / refused with diagnostic) against Usable(G) defined in Grammar.tla",
            "generated <=> usable on grammars with planted undefined / rule-less / unproductive symbols anywhere, plus exhaustive small grammars.",
            "A refusal is an error return or a panic carrying a message.", "5 C12"),
}

TITLES = {}
for line in open(os.path.join(VERIF, "properties.jsonl")):
    p = json.loads(line)
    TITLES[p["id"]] = p["title"]

NOT_YET = "check not built yet in this session (planned, see DESIGN.md section 5); will be claimed once it runs clean on the unchanged tree"


def main():
    commits = subprocess.run(["git", "-C", "/repo", "log", "--format=%h %s", "--grep=^verif:"], stdout=subprocess.PIPE, text=True).stdout.strip().splitlines()
    checks = []
    for pid in sorted(CHECKS):
        cat, tech, text, note, ref = CHECKS[pid]
        checks.append({
            "property_id": pid,
            "quick_cmd": "./check %s quick" % pid,
            "thorough_cmd": "./check %s thorough" % pid,
            "evidence_file": "/verif/evidence/%s.json" % pid,
            "replay_cmd_template": "./check %s --replay {path}" % pid,
            "engine": "tlc",
            "level_claimed": {"category": cat, "text": text, "design_ref": "DESIGN.md section " + ref},
            "level_note": note,
            "technique": tech,
        })
    na = [{"property_id": pid, "reason": NOT_YET} for pid in sorted(TITLES) if pid not in CHECKS]
    m = {
        "version": 1,
        "setup_cmd": "./check setup",
        "hooks": {
            "guard": "verif",
            "enable": "go build -tags verif (harness module with replace github.com/acekingke/yaccgo => /repo)",
            "baseline_off_cmd": "cd /repo && GOFLAGS=-mod=mod go test -vet=off -count=1 ./...",
            "source_commits": [c.split()[0] for c in commits],
            "add_only": True,
        },
        "engines": [
            {"name": "tlc", "path": "/opt/veriftools/tla/tla2tools.jar", "serves_properties": sorted(CHECKS),
             "kind_free_text": "TLA+ specification in /verif/spec checked by TLC; observations recorded from real yaccgo runs by the Go harness in /verif/harness are validated against it, and TLC-generated scenarios are replayed into real code"},
        ],
        "checks": checks,
        "not_applicable": na,
        "notes": "Exit 2 = inconclusive (build failure, TLC crash/timeout, vacuity guard); never printed as a violation. Known findings: KNOWN_FINDINGS.txt.",
    }
    json.dump(m, open(os.path.join(VERIF, "MANIFEST.json"), "w"), indent=1)
    print("MANIFEST.json: %d checks, %d not_applicable" % (len(checks), len(na)))


if __name__ == "__main__":
    main()
