#!/usr/bin/env python3
"""Regenerates MANIFEST.json from the table below (single source of truth)."""
import json
import os
import subprocess

VERIF = os.path.dirname(os.path.dirname(os.path.abspath(__file__)))

# id -> (category, technique, level text, level note, design ref)
CHECKS = {
    "C10": ("model_checking",
            "TLC (Layout.tla) generates the layout vectors per file specification; each rendering is read by the real front end in-process and TLC (ConfFile.tla) compares the projected result with the abstract specification; three stage models bound by conformance on recorded data: Lexer.tla (characters -> tokens, hook VerifLex), FileParse.tla (tokens -> syntax tree), SymTab.tla (syntax tree -> symbols, codes, tags, precedence, rule precedence)",
            "Every uniform layout, every single-gap deviation x 9 trivia kinds and seeded pseudo-random vectors, for random file specifications with tags, explicit numbers, precedence lines, %prec, action bodies with nested braces/comments, alternatives with | and optional ';', tokens spelled like directive words.",
            "CR is not in the layout alphabet; '%}' is followed by a line break; braces inside action strings are balanced.", "5 C10"),
    "C11": ("model_checking",
            "TLC (ConfCodes.tla) checks the numbering rules of TokenCodes.tla on codes recorded in-process and on the constants and translate(c) reported by the BUILT generated programs (go, go -u, go -o, typescript) for all integers in a range",
            "Random declaration mixes: literals (ASCII and non-ASCII; declared by %token, on precedence lines or only used), named tokens with explicit / automatic numbers, tagged or not, declared only on precedence lines.",
            "Explicit numbers are kept distinct from each other and from literal codes by the generator (the user's part of the bargain).", "5 C11"),
    "C13": ("model_checking",
            "TLC checks liveness of the lexer||parser protocol model (LexParse.tla) for all token-kind sequences up to N and 3 lexer endings; every scenario is concretised and run through the real CLI; plus every prefix and random edits of rendered files through generate go / generate typescript / debug under a deadline",
            "The verdict comes only from real CLI runs (an expiry is re-run twice alone with a doubled deadline before it counts); the model says where to look and is kept in step with the code (drift report on the real lexer's token kinds).",
            "Deadline 5 s (10 s on confirmation) where ~5 ms is normal. Small scope, exhaustively: every sequence of up to 4 (thorough: 5) fragments of a 40-fragment alphabet, spaced and fused, through parser.ParseAndBuild in-process (5.3 / 210 million inputs).", "5 C13"),
    "C14": ("model_checking",
            "Two-run self-composition over order-sensitive sites (Determinism.tla, model-checked with the code's set of map-ordered sites); ConfDeterminism.tla requires one single output hash per (grammar file, option set) over repeated real CLI runs and repeated in-process generations",
            "6/12 separate processes + 3 in-process generations per group; grammars with several automatically numbered tokens, several goto targets per state and tie rows.",
            "The verdict is equality of real output bytes.", "5 C14"),
    "C15": ("model_checking",
            "Sessions.tla / Contexts.tla model-checked (independence after init; isolation under every interleaving); their scenario spaces replayed on generated parsers: histories in one process (5 variants, re-used context, shared TypeScript module), two -o contexts under every schedule of token fetches with GetToken as scheduler gate, 8 contexts in parallel under -race; a deep-nesting probe (stacks of 5 to 1200 entries on fresh and re-initialised parser objects); ConfSessions.tla compares each parse with the same parse alone",
            "Each parse's full event log (tokens fetched, reductions, outcome, value) must equal that of the same parse in a fresh process / alone.",
            "Schedules above the cap are sampled; the race detector needs cgo (present).", "5 C15"),
    "C18": ("model_checking",
            "TLC (ConfListing.tla over Listing.tla) compares the parsed debug listing and the parsed DOT graph of one in-process run with the dense table, item sets and look-aheads of that same run",
            "Diagram: exactly the table's automaton (nodes with their items, edges = shift/goto cells, reduce annotations = negative cells, filled node = accept state, same numbering). Listing: contains everything the table implements; anything beyond must be the loser of a conflict in that cell.",
            "The listing is parsed by the harness (format drift makes the check inconclusive, not failing).", "5 C18"),
    "C19": ("fault_enumeration",
            "Pipeline.tla models generate as steps over the output file and is model-checked; its scenario space (language x planted input-caused failure) is replayed against the real CLI with a pre-existing output file and ConfPipeline.tla validates exit status / file bytes against the model",
            "Every failure cause of the model (lexical, syntax, undefined symbol, rule-less nonterminal, unproductive nonterminal, $n out of range, $0) x go (default, -u, -o) and typescript x several base grammars; success scenarios must end with the epilogue.",
            "Causes are planted by text transformations of well-formed files.", "5 C19"),
    "C16": ("exploration",
            "Every output variant is generated by the real CLI and built by go build / loaded by node 22; ConfBuild.tla states the acceptance rule (generated without error => builds and runs) over the recorded outcomes",
            "Exploration over corpus, random, operator and surface-feature grammars (identifier shapes, all printable ASCII literals except quote and backslash, rule lengths 0..6, tag mixes, with/without union and precedence) x 5 variants; the toolchain is the judge of well-formedness.",
            "No tsc: TypeScript is loaded after type stripping, not type-checked; go vet output is recorded, not judged. For a sample of grammars two option sets are generated one after the other in one process; the second file is built when it differs from the CLI's.", "5 C16"),
    "C01": ("model_checking",
            "TLC model-checks LRDriver.tla over dense tables recorded from real runs (all inputs up to a bound) and validates event traces of all five generated parser variants against RunTrace.tla (derivation replay, no table consulted)",
            "Table level: every input up to the bound for every recorded grammar: accept only with the start symbol alone on the symbol stack, all handles matching, no missing goto / underflow. Run level: every accepting run of go, go -u, go -o, go -o -u and typescript parsers replays as a rightmost derivation of the whole input.",
            "TLC, harness projection and log parsing; actions log the rule number (yaccgo numbering); a discrepancy is confirmed in a fresh process before it is reported.", "5 C01"),
    "C02": ("model_checking",
            "TLC: LRDriver.tla over recorded tables vs an Earley recogniser written in TLA+ (Earley.tla), plus trace validation of generated parsers' verdicts against the same reference",
            "For grammars the specification classifies conflict-free LALR(1): every input that Earley accepts is accepted by the recorded table under the spec driver (all inputs up to the bound) and by all five generated parsers (recorded runs).",
            "Earley.tla is cross-checked against the bounded language L_k (Grammar.tla) and against the spec's own LALR table (SpecTabOK) on every run.", "5 C02"),
    "C06": ("model_checking",
            "TLC: outcome class and number of GetToken calls of recorded runs vs Earley's first bad position; LRDriver.tla over recorded tables for all inputs up to a bound",
            "Every recorded run ends as accept or documented syntax error (never crash / nil / TypeError); on conflict-free grammars the error comes exactly when the first token that cannot continue any sentence has been fetched, and nothing after it is requested.",
            "Conflict-free is the specification's judgement; divergence on conflicted grammars is a don't-care.", "5 C06"),
    "C07": ("model_checking",
            "Trace validation: TLC re-evaluates the semantic actions (EvalAct in RunTrace.tla) bottom-up along the replayed derivation and compares with the value the generated parser returned; text level: the cases of the generated reduce function of all five variants, for arbitrary action texts, against the substitution defined in ReduceCode.tla (ConfReduceCode.tla; scanner machine ReduceScan.tla model-checked against the function)",
            "Random tags and arithmetic/concatenating actions over random subsets of $1..$n, rules of length 0..4+, all five variants; wrong slot, wrong field, wrong pop count or stale stack contents change the value.",
            "Token values depend on position and kind so that slots are distinguishable.", "5 C07"),
    "C08": ("model_checking",
            "Trace validation: RunTrace.tla requires every variant's run of one (grammar, input) group to equal the group's first run (verdict, reductions, value, tokens fetched)",
            "go, go -u, go -o, go -o -u and typescript parsers generated by the real CLI, built/loaded by the real toolchains, same inputs.", "TypeScript runs under node 22 type stripping (no tsc in the sandbox).", "5 C08"),
    "C17": ("model_checking",
            "Trace validation: every line printed with IsTrace is one step of RunTrace17.tla, replayed on the grammar's LR(0) automaton (LR0.tla); ConfLateTrace.tla: runs in which the first semantic action switches IsTrace on print what the validated full run prints from that point",
            "Each shift/goto/reduce line must be a legal step, carry the exact rule text and the current look-ahead, use state numbers consistent with one partial bijection to item sets, and correspond one-to-one to executed actions.",
            "Four Go variants; TypeScript has no trace facility.", "5 C17"),
    "C03": ("model_checking",
            "TLC evaluates the LALR(1) definition (LR(1)-merge, cross-checked against a DeRemer-Pennello refinement) on look-ahead sets and warnings recorded from real yaccgo runs",
            "Bounded-exhaustive (all grammars <=3 rules over 2 NT/2 T) plus seeded random/structured families: every reduce point's recorded look-ahead set equals the TLA+ definition; warning iff a default-resolved cell exists.",
            "TLC, the Json module, the harness projection (state number -> item set, symbol id -> name); bounded populations.", "5 C03"),
    "C04": ("model_checking",
            "TLC: two-candidate cells of recorded tables vs ResolveSR/ResolveRR (LALR.tla); LRDriver.tla over recorded tables vs the spec's resolved table on all inputs up to a bound; trace validation of CLI-generated operator-grammar parsers (5 variants) against the spec's resolved table; PrecClimb.tla (precedence climbing over the declarations, no LR machinery) as a third reference for tables and real runs on grammars of operator shape",
            "Every two-way conflict cell of every recorded table is checked against the precedence/associativity/default rules; rules whose precedence differs between yacc's and yaccgo's definition, n-way cells and reduce/reduce with both precedences are explicit don't-cares.",
            "Candidate sets are formed from the implementation's own look-aheads (C03 judges those).", "5 C04"),
    "C05": ("model_checking",
            "TLC: Lossless on results of the real PackTable over exhaustive small + random matrices; first-fit packer model-checked as a state machine (PackAlgo.tla); SplitLookup(packed arrays) = dense table for every cell of recorded tables; trace validation that packed and -u parsers agree; ConfCells.tla: the generated Action() of every built Go variant asked for every (state, symbol) vs the dense table",
            "Every (state, symbol) cell of every packed table recorded from real runs returns the dense entry when looked up as the generated Action() does.",
            "The TLA+ SplitLookup mirrors the template's Action(); behaviour-level packed-vs-unpacked comparison is added by the run campaign.", "5 C05"),
    "C09": ("model_checking",
            "TLC compares recorded LR0Closure (item sets, goto lists) with the canonical LR(0) collection defined as a fixpoint in LR0.tla",
            "Set equality with the canonical collection, no duplicates, exact transitions, state 0 = start closure, on exhaustive small grammars and random families.",
            "TLC, harness projection.", "5 C09"),
    "C12": ("model_checking",
            "TLC checks recorded outcome (generated / refused with diagnostic) against Usable(G) defined in Grammar.tla",
            "generated <=> usable on grammars with planted undefined / rule-less / unproductive symbols anywhere, plus exhaustive small grammars.",
            "A refusal is an error return or a panic carrying a message.", "5 C12"),
}

TITLES = {}
for line in open(os.path.join(VERIF, "properties.jsonl")):
    p = json.loads(line)
    TITLES[p["id"]] = p["title"]

NOT_YET = "check not built yet in this session (planned, see DESIGN.md section 5); will be claimed once it runs clean on the unchanged tree"


def main():
    commits = subprocess.run(["git", "-C", "/repo", "log", "--format=%h %s", "--grep=^verif:"], stdout=subprocess.PIPE, text=True).stdout.strip().splitlines()
    checks = []
    for pid in sorted(CHECKS):
        cat, tech, text, note, ref = CHECKS[pid]
        checks.append({
            "property_id": pid,
            "quick_cmd": "./check %s quick" % pid,
            "thorough_cmd": "./check %s thorough" % pid,
            "evidence_file": "/verif/evidence/%s.json" % pid,
            "replay_cmd_template": "./check %s --replay {path}" % pid,
            "engine": "tlc",
            "level_claimed": {"category": cat, "text": text, "design_ref": "DESIGN.md section " + ref},
            "level_note": note,
            "technique": tech,
        })
    na = [{"property_id": pid, "reason": NOT_YET} for pid in sorted(TITLES) if pid not in CHECKS]
    m = {
        "version": 1,
        "setup_cmd": "./check setup",
        "hooks": {
            "guard": "verif",
            "enable": "go build -tags verif (harness module with replace github.com/acekingke/yaccgo => /repo)",
            "baseline_off_cmd": "cd /repo && GOFLAGS=-mod=mod go test -vet=off -count=1 ./...",
            "source_commits": [c.split()[0] for c in commits],
            "add_only": True,
        },
        "engines": [
            {"name": "tlc", "path": "/opt/veriftools/tla/tla2tools.jar", "serves_properties": sorted(CHECKS),
             "kind_free_text": "TLA+ specification in /verif/spec checked by TLC; observations recorded from real yaccgo runs by the Go harness in /verif/harness are validated against it, and TLC-generated scenarios are replayed into real code"},
        ],
        "checks": checks,
        "not_applicable": na,
        "notes": "Exit 2 = inconclusive (build failure, TLC crash/timeout, vacuity guard); never printed as a violation. Known findings: KNOWN_FINDINGS.txt.",
    }
    json.dump(m, open(os.path.join(VERIF, "MANIFEST.json"), "w"), indent=1)
    print("MANIFEST.json: %d checks, %d not_applicable" % (len(checks), len(na)))


if __name__ == "__main__":
    main()
