#!/bin/bash
# usage: tools/runall.sh [quick|thorough] [ids...]   -- runs the checks one after another, prints id, exit status, seconds
tier=${1:-quick}; shift
ids=${@:-C01 C02 C03 C04 C05 C06 C07 C08 C09 C10 C11 C12 C13 C14 C15 C16 C17 C18 C19}
cd "$(dirname "$(readlink -f "$0")")/.."
bad=0
for p in $ids; do
  t0=$(date +%s)
  out=$(./check $p $tier 2>&1); rc=$?
  t1=$(date +%s)
  echo "$p $tier exit=$rc $((t1-t0))s $(echo "$out" | grep -c '^VIOLATION') violations $(echo "$out" | grep -c '^KNOWN-FINDING') known"
  if [ $rc -ne 0 ]; then bad=1; echo "$out" | grep -m3 -A3 '^VIOLATION\|^INCONCLUSIVE' | cut -c1-400; fi
done
exit $bad
