#!/bin/bash
# usage: tools/seed_sweep.sh [PAR]   -- re-runs every seeded defect (seeded/<Cnn>-*/patch.diff) and every reverted repair
# (mutants/revert-*.diff) against the current quick check of its property,
# PAR at a time; prints one line per patch.  A patch is "detected" when the check exits 1.
cd "$(dirname "$(readlink -f "$0")")/.."
par=${1:-2}
one() {
  d=$1; id=$(basename $d); p=${id%%-*}
  out=$(tools/mutant_test.sh $d/patch.diff $p 2>&1 | grep -m1 "exit=")
  echo "$id $out"
}
export -f one
order=${2:-fwd}   # "rev": seeds in reverse order and no reverted repairs (a second sweep working from the other end)
if [ "$order" = rev ]; then
  ls -d seeded/*/ | sed 's,/$,,' | sort -r | xargs -P $par -I{} bash -c 'one {}'
  exit 0
fi
ls -d seeded/*/ | sed 's,/$,,' | xargs -P $par -I{} bash -c 'one {}'
# reverted repairs: id -> property that must fire
while read m p; do
  out=$(tools/mutant_test.sh mutants/revert-$m.diff $p 2>&1 | grep -m1 "exit=")
  echo "revert-$m $out"
done <<'EOT'
D1 C03
D2 C04
D3 C05
D4 C06
D5 C13
D6 C14
E1 C16
E2 C10
E3 C11
E4 C16
F1 C10
F2 C10
F3 C10
F4 C10
G1 C18
H1 C13
EOT
