#!/usr/bin/env python3
"""Validates MANIFEST.json and evidence/*.json against the schemas (uses the tooling venv's jsonschema)."""
import glob
import json
import sys

import jsonschema

jsonschema.validate(json.load(open('/verif/MANIFEST.json')), json.load(open('/root/.vp/MANIFEST.schema.json')))
es = json.load(open('/root/.vp/EVIDENCE.schema.json'))
bad = 0
for f in sorted(glob.glob('/verif/evidence/*.json')):
    try:
        jsonschema.validate(json.load(open(f)), es)
    except Exception as e:
        print("INVALID", f, str(e)[:300])
        bad += 1
print("manifest valid; evidence files checked:", len(glob.glob('/verif/evidence/*.json')), "invalid:", bad)
sys.exit(1 if bad else 0)
