"""Table-level driver check: LRDriver.tla instantiated with dense tables recorded
from real yaccgo runs, model-checked over every input up to a length bound
(spec/ConfDriver.tla).  Serves C01, C02, C06."""
import glob
import json
import os
import re

import conf
from vlib import Inconclusive, add_tlc_cov, log, require_clean, run_tlc_shards

INVS = {
    "C01": ["C01_Sound", "C01_NoStuck", "C01_Handles"],
    "C02": ["C02_Complete", "SpecTabOK"],
    "C06": ["C06_FirstBad", "C06_NoDiverge", "C06_NoFalseAccept", "C01_NoStuck", "SpecTabOK"],
    "C04": ["C04_Behaviour", "C04_Climb", "C04_ClimbSpec"],
}


def population(ctx):
    s = ctx.seed
    if ctx.prop == "C04":
        if ctx.quick():
            return ["-corpus", conf.CORPUS, "-nexpr", 150, "-nrand", 150, "-extra", 40]
        return ["-corpus", conf.CORPUS, "-nexpr", 1500, "-nrand", 1500, "-extra", 80]
    if ctx.quick():
        return ["-corpus", conf.CORPUS, "-small-max", 3, "-small-slices", 24, "-small-slice", s % 24,
                "-nrand", 220, "-ndp", 60, "-nctx", 80, "-nexpr", 40, "-nbig", 1, "-nopt", 30, "-nring", 20, "-extra", 30]
    return ["-corpus", conf.CORPUS, "-small-max", 3, "-nrand", 3000, "-ndp", 800, "-nctx", 1000, "-nexpr", 400, "-nbig", 15, "-nopt", 300, "-nring", 200, "-extra", 60]


def write_cfg(path, invs, kmax, limit, klang=0):
    with open(path, "w") as f:
        f.write("CONSTANTS KMax = %d\nLimit = %d\nKLang = %d\nSPECIFICATION Spec\n" % (kmax, limit, klang))
        for i in invs:
            f.write("INVARIANT %s\n" % i)
        f.write("INVARIANT Report\nCHECK_DEADLOCK FALSE\n")


def run_driver(ctx, replay):
    prop = ctx.prop
    out = ctx.sub("obs")
    args = ["observe", "-seed", ctx.seed, "-out", out, "-shards", 16]
    if replay:
        args += ["-case", os.path.join(replay, "case.json"), "-shards", 1]
    else:
        args += population(ctx)
    r = ctx.vh(args)
    log(r.stdout.strip().splitlines()[-1])
    shards = sorted(glob.glob(os.path.join(out, "obs-*.json")))
    summary = json.load(open(os.path.join(out, "observe-summary.json")))
    cfgname = "ConfDriver_%s.cfg" % prop
    kmax, limit = ctx.pick((5, 300), (6, 1200))
    write_cfg(os.path.join(ctx.work, cfgname), INVS[prop], kmax, limit)
    results = run_tlc_shards(ctx, "ConfDriver.tla", cfgname, shards, timeout=ctx.pick(900, 3300),
                             heap="3g", extra=["-continue"], extra_files={cfgname: os.path.join(ctx.work, cfgname)})
    require_clean(results)
    add_tlc_cov(ctx, results, "LRDriver over recorded dense tables, every input up to the bound (ConfDriver.tla)")
    ngram = ncf = ninputs = ninputs_cf = ndecided = ninputs_decided = nshape = ninputs_shape = 0
    cases = {c["id"]: c for c in json.load(open(os.path.join(out, "cases.json")))}
    for sf, res in results:
        obs = json.load(open(sf))
        for m in re.finditer(r'<<"GRAMMAR", (\d+), (TRUE|FALSE), (\d+), (\d+), (TRUE|FALSE), (TRUE|FALSE)>>', res.out):
            ngram += 1
            ninputs += int(m.group(3))
            if m.group(2) == "TRUE":
                ncf += 1
                ninputs_cf += int(m.group(3))
            elif m.group(5) == "TRUE":
                ndecided += 1
                ninputs_decided += int(m.group(3))
            if m.group(6) == "TRUE":
                nshape += 1
                ninputs_shape += int(m.group(3))
        seen = set()
        for name, vars_, txt in res.violations:
            if name == "Report":
                continue
            g = int(vars_.get("g", "0"))
            o = obs[g - 1]
            inp = vars_.get("input", "")
            key = "%s:%s:%s" % (o["id"], name, inp)
            if (o["id"], name) in seen:   # one report per grammar and invariant
                continue
            seen.add((o["id"], name))
            d = ctx.replay_dir(key)
            json.dump(cases[o["id"]], open(os.path.join(d, "case.json"), "w"), indent=1)
            json.dump({"property": prop, "module": "ConfDriver.tla", "invariant": name, "input": inp, "kind": "driver"},
                      open(os.path.join(d, "meta.json"), "w"), indent=1)
            open(os.path.join(d, "tlc-state.txt"), "w").write(txt)
            rules = "; ".join("%s -> %s" % (ru["lhs"], " ".join(ru["rhs"] or [])) for ru in o["g"]["rules"][1:])
            ctx.violation(key, d, "grammar %s, input %s: the recorded table driven by the LR driver violates %s\n%s" % (
                o["id"], inp, name, rules))
    ctx.cov["traces_validated_against_impl"] += summary["outcomes"].get("ok", 0)
    ctx.cov["evaluations"] += ninputs
    ctx.cov["driver_level"] = {"grammars": ngram, "conflict_free": ncf, "inputs": ninputs, "inputs_on_conflict_free": ninputs_cf,
                               "conflicted_but_decided": ndecided, "inputs_on_decided": ninputs_decided,
                               "operator_shape": nshape, "inputs_on_operator_shape": ninputs_shape,
                               "kmax": kmax, "limit_per_grammar": limit}
    ctx.cov["samples"] += conf.samples_from(shards, 3)
    if not replay:
        if prop == "C04":
            if ndecided < ctx.pick(60, 600):
                raise Inconclusive("vacuity: only %d grammars with decided conflicts" % ndecided)
            if nshape < ctx.pick(60, 600):
                raise Inconclusive("vacuity: only %d grammars of operator shape (PrecClimb reference)" % nshape)
        elif ngram < ctx.pick(250, 4000) or ncf < ctx.pick(120, 2000):
            raise Inconclusive("vacuity: %d grammars, %d conflict-free" % (ngram, ncf))
    return ctx.cov["driver_level"]
