"""Run campaign: every output variant of generated parsers is produced by the
real CLI, built by the real toolchains, run on inputs, and the recorded runs
are validated by TLC against spec/RunTrace.tla (C01 C02 C05 C06 C07 C08) and
spec/RunTrace17.tla (C17).  C16 reads the build results."""
import collections
import glob
import json
import os
import shutil

import conf
from vlib import (Inconclusive, NODE22, VERIF, add_tlc_cov, log, require_clean, run_tlc_shards)

RUNTS = os.path.join(VERIF, "harness", "runts.js")

INVS = {
    "C01": ["C01_Run"],
    "C02": ["C02_Run"],
    "C04": ["C04_Run", "C04_ClimbRun"],
    "C05": ["C05_Agree"],
    "C06": ["C06_Run"],
    "C07": ["C07_Value", "C01_Run"],
    "C08": ["C08_Agree"],
}


def population(ctx, flavour):
    s = ctx.seed
    q = ctx.quick()
    if flavour == "values":
        return (["-nrand", 30 if q else 260, "-nexpr", 8 if q else 60, "-ndp", 6 if q else 40, "-nctx", 4 if q else 40,
                 "-nlong", 8 if q else 60, "-nprobe", 6 if q else 40, "-valued", 100],
                ["-limit", 60 if q else 200, "-nrandom", 40 if q else 120])
    if flavour == "expr":
        return (["-nexpr", 30 if q else 300, "-valued", 100], ["-limit", 150 if q else 1500, "-kmax", 7, "-nrandom", 40 if q else 150])
    # general mix
    return (["-corpus", conf.CORPUS, "-nrand", 24 if q else 220, "-nexpr", 6 if q else 60, "-ndp", 4 if q else 40,
             "-nctx", 8 if q else 80, "-nopt", 4 if q else 40, "-nring", 3 if q else 30, "-small-max", 3, "-small-slices", 400 if q else 40, "-small-slice", s % (400 if q else 40),
             "-nbig", (1 if q else 5) if ctx.prop in ("C01", "C02", "C06") else 0, "-nlong", 3 if q else 24, "-valued", 60],
            ["-limit", 100 if q else 400, "-nrandom", 24 if q else 100])


def campaign(ctx, flavour="mix", trace=False, cases=None, inputs_file=None, variants=None, keep=False, name="camp", cells=False):
    out = ctx.sub(name)
    if not os.path.exists(NODE22):
        ctx.assumptions.append("node >= 22 not found: TypeScript variant unexplored")
        variants = variants or "go,go-u,go-o,go-o-u"
    args = ["campaign", "-cli", ctx.cli(), "-node", NODE22, "-runts", RUNTS, "-out", out, "-seed", ctx.seed,
            "-shards", 16, "-par", 16]
    if trace:
        args.append("-trace")
    if keep:
        args.append("-keep")
    if cells:
        args.append("-cells")
    if variants:
        args += ["-variants", variants]
    if cases:
        args += ["-cases", cases]
        if inputs_file:
            args += ["-inputs-file", inputs_file]
        else:
            args += population(ctx, flavour)[1]
    else:
        pop, inp = population(ctx, flavour)
        args += pop + inp
    r = ctx.vh(args, timeout=3000)
    log(r.stdout.strip().splitlines()[-1])
    recs = json.load(open(os.path.join(out, "campaign.json")))
    return out, recs


def trace_stats(out, prefix="trace"):
    st = collections.Counter()
    groups = set()
    for f in glob.glob(os.path.join(out, prefix + "-*.ndjson")):
        cur = None
        for line in open(f):
            e = json.loads(line)
            st["events"] += 1
            if e["e"] == "reset":
                cur = e
                st["runs"] += 1
                st["runs_" + e["variant"]] += 1
                if e["first"]:
                    st["groups"] += 1
            elif e["e"] == "end":
                st["verdict_" + e["verdict"]] += 1
            elif e["e"] in ("shift", "reduce", "R", "T"):
                st["ev_" + e["e"]] += 1
    return dict(st)


def validate(ctx, out, module, cfgname, invs, prefix="trace", tag=""):
    """TLC over every shard; returns results.  on_violation(shard_index, name, vars, txt)."""
    with open(os.path.join(ctx.work, cfgname), "w") as f:
        f.write("SPECIFICATION Spec\n")
        for i in invs:
            f.write("INVARIANT %s\n" % i)
        f.write("POSTCONDITION TraceAccepted\nCHECK_DEADLOCK FALSE\n")
    shards = sorted(glob.glob(os.path.join(out, prefix + "-*.ndjson")), key=lambda p: int(p.rsplit("-", 1)[1].split(".")[0]))
    shards = [s for s in shards if os.path.getsize(s) > 0]
    if not shards:
        raise Inconclusive("campaign produced no traces")
    # stage: each shard needs its own tcases file under a fixed name
    import concurrent.futures
    from vlib import stage_spec, run_tlc
    jobs = []
    for sf in shards:
        k = int(sf.rsplit("-", 1)[1].split(".")[0])
        d = ctx.sub("tlc-%s%s-%d" % (cfgname.replace(".cfg", ""), tag, k))
        stage_spec(d)
        shutil.copy(sf, os.path.join(d, "trace.ndjson"))
        shutil.copy(os.path.join(out, "tcases-%d.json" % k), os.path.join(d, "tcases.json"))
        shutil.copy(os.path.join(ctx.work, cfgname), os.path.join(d, cfgname))
        jobs.append((k, sf, d))
    results = []
    with concurrent.futures.ThreadPoolExecutor(max_workers=min(16, len(jobs))) as ex:
        futs = {ex.submit(run_tlc, d, module, cfgname, ctx.pick(900, 3300), "3g", 1, ["-continue"]): (k, sf) for k, sf, d in jobs}
        for f in concurrent.futures.as_completed(futs):
            k, sf = futs[f]
            results.append((sf, f.result()))
    results.sort(key=lambda x: x[0])
    for sf, r in results:
        if "Postcondition TraceAccepted" in r.out:
            raise Inconclusive("trace %s was not consumed completely by %s (harness/spec mismatch)" % (sf, module))
    # postcondition failure is reported by TLC as Error: ... ; filter that from errors first
    for sf, r in results:
        r.errors = [e for e in r.errors if "TraceAccepted" not in e]
    require_clean(results)
    add_tlc_cov(ctx, results, "%s: one step per recorded event" % module)
    return results


def parse_input(txt):
    """TLC prints input = <<"a", "b">>"""
    import re
    return re.findall(r'"((?:[^"\\]|\\.)*)"', txt or "")


def violations_of(out, results):
    """[(case id, case, variant, input names, ords, invariant, why, tlc text)]"""
    cases = json.load(open(os.path.join(out, "cases.json")))
    byid = {c["id"]: c for c in cases}
    res = []
    seen = set()
    for sf, r in results:
        if not r.violations:
            continue
        k = int(sf.rsplit("-", 1)[1].split(".")[0])
        tcases = json.load(open(os.path.join(out, "tcases-%d.json" % k)))
        for name, vars_, txt in r.violations:
            cs = int(vars_.get("cs", "0"))
            if cs < 1 or cs > len(tcases):
                continue
            cid = tcases[cs - 1]["id"]
            if (cid, name) in seen:     # one report per grammar and invariant
                continue
            seen.add((cid, name))
            variant = (vars_.get("variant", '""')).strip('"')
            if "input" in vars_:
                inp = parse_input(vars_["input"])
                terms = tcases[cs - 1]["g"]["terms"]
                ords = [(terms.index(t) + 1) if t in terms else 0 for t in inp]
            else:                        # RunTrace17 does not carry the input: take it from the trace line
                inp, ords = None, None
            res.append({"id": cid, "case": byid[cid], "variant": variant, "input": inp, "ords": ords, "inv": name,
                        "why": vars_.get("why", "").strip('"'), "txt": txt, "l": int(vars_.get("l", "0")), "shard": sf})
    return res


def input_from_trace(shard, l):
    """The reset line governing trace line l (1-based) of a shard."""
    last = None
    for n, line in enumerate(open(shard), 1):
        if n > l:
            break
        e = json.loads(line)
        if e["e"] == "reset":
            last = e
    return last


def run_level(ctx, replay, module, invs, flavour="mix", trace=False, prefix="trace", variants=None, cells=False):
    """Campaign + trace validation + confirmation of every violation in fresh processes."""
    cfgname = module.replace(".tla", "") + "_" + ctx.prop + ".cfg"
    if replay:
        out, recs = campaign(ctx, flavour, trace, cases=os.path.join(replay, "cases.json"),
                             inputs_file=os.path.join(replay, "inputs.txt"), variants=variants, cells=cells)
    else:
        out, recs = campaign(ctx, flavour, trace, variants=variants, cells=cells)
    results = validate(ctx, out, module, cfgname, invs, prefix)
    viols = violations_of(out, results)
    unconfirmed = 0
    for n, v in enumerate(viols):
        if v["ords"] is None or v["l"] >= 2:
            # the run is identified by the trace line just consumed (l points at the next one)
            rs = input_from_trace(v["shard"], max(1, v["l"] - 1))
            v["input"], v["ords"], v["variant"] = rs["input"], rs["ords"], rs["variant"]
        key = "%s:%s:%s:%s" % (v["id"], v["inv"], v["variant"], " ".join(v["input"]))
        d = ctx.replay_dir(key)
        json.dump([v["case"]], open(os.path.join(d, "cases.json"), "w"), indent=1)
        open(os.path.join(d, "inputs.txt"), "w").write(" ".join(str(o) for o in v["ords"]) + "\n")
        json.dump({"property": ctx.prop, "invariant": v["inv"], "variant": v["variant"], "input": v["input"], "kind": "run",
                   "why": v["why"], "module": module}, open(os.path.join(d, "meta.json"), "w"), indent=1)
        open(os.path.join(d, "tlc-state.txt"), "w").write(v["txt"])
        confirmed = True
        if not replay and n < int(os.environ.get("VERIF_MAXCONFIRM", "12")):
            # re-run this single input: every variant gets a fresh process (and a fresh vm context)
            out2, _ = campaign(ctx, flavour, trace, cases=os.path.join(d, "cases.json"),
                               inputs_file=os.path.join(d, "inputs.txt"), variants=variants, name="confirm-%d" % n)
            res2 = validate(ctx, out2, module, cfgname, invs, prefix, tag="-confirm%d" % n)
            confirmed = any(r.violations for _, r in res2)
        rules = "; ".join("%s -> %s" % (ru["lhs"], " ".join(ru["rhs"] or [])) for ru in v["case"]["rules"])
        text = "grammar %s, variant %s, input [%s]: recorded run violates %s %s\n%s" % (
            v["id"], v["variant"], " ".join(v["input"]), v["inv"], v["why"], rules)
        if confirmed:
            ctx.violation(key, d, text)
        else:
            unconfirmed += 1
            log("UNCONFIRMED (not reproduced in a fresh process, parses interfere - see C15): " + text)
    st = trace_stats(out, prefix)
    ctx.cov["run_level"] = st
    ctx.cov["traces_validated_against_impl"] += st.get("runs", 0)
    ctx.cov["evaluations"] += st.get("runs", 0)
    ctx.cov["unconfirmed"] = unconfirmed
    built = sum(1 for cr in recs for vr in cr["variants"] if vr["gen_exit"] == 0 and vr["build_ok"])
    ctx.cov["variants_built"] = built
    ctx.cov["cases_run"] = len(recs)
    ctx.cov["packed_variants"] = sum(1 for cr in recs for vr in cr["variants"] if vr["packed"])
    # sample: a couple of real runs
    sh = sorted(glob.glob(os.path.join(out, prefix + "-*.ndjson")))
    if sh:
        lines = [json.loads(x) for x in open(sh[0]).read().splitlines()[:40]]
        run, runs = [], []
        for e in lines:
            run.append(e)
            if e["e"] == "end":
                runs.append(run)
                run = []
        ctx.cov["samples"] += runs[1:3]
    notbuilt = sum(1 for cr in recs for vr in cr["variants"] if vr["gen_exit"] == 0 and not vr["build_ok"])
    ctx.cov["generated_but_not_built"] = notbuilt
    if notbuilt and not ctx.violations and not replay:
        # a parser that was generated without an error but does not build or load could not be observed: no verdict
        # from it (that it does not build is C16's finding)
        raise Inconclusive("%d generated parsers did not build or load (see C16): nothing was observed from them" % notbuilt)
    if unconfirmed and not ctx.violations:
        raise Inconclusive("%d discrepancies were not reproduced in fresh processes" % unconfirmed)
    return out, recs, st
