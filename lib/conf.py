"""Construction conformance checks (C03, C04, C05, C09, C12): grammars are
generated, yaccgo runs in-process on each (harness `observe`), and TLC judges
the recorded automaton / look-aheads / table / packed arrays / outcome against
the TLA+ definitions."""
import glob
import json
import os
import shutil

from vlib import (Inconclusive, add_tlc_cov, log, require_clean, run_tlc_shards, sum_stats, VERIF)

CORPUS = os.path.join(VERIF, "corpus")


def population(ctx, kind):
    """Population flags per property family and tier."""
    s = ctx.seed
    if kind == "lr0":      # C09, C12: cheap per grammar
        if ctx.quick():
            return ["-corpus", CORPUS, "-small-max", 3, "-small-slices", 8, "-small-slice", s % 8,
                    "-nrand", 400, "-ndp", 100, "-nctx", 60, "-nexpr", 40, "-nplanted", 300]
        return ["-corpus", CORPUS, "-small-max", 3, "-nrand", 30000, "-ndp", 6000, "-nctx", 4000,
                "-nexpr", 2000, "-nplanted", 15000]
    if kind == "lalr":     # C03, C04, C05
        if ctx.quick():
            return ["-corpus", CORPUS, "-small-max", 3, "-small-slices", 16, "-small-slice", s % 16,
                    "-nrand", 300, "-ndp", 150, "-nctx", 150, "-nexpr", 60, "-nring", 40, "-nopt", 40]
        return ["-corpus", CORPUS, "-small-max", 3, "-nrand", 5000, "-ndp", 2000, "-nctx", 2000, "-nexpr", 600, "-nring", 400, "-nopt", 400]
    raise ValueError(kind)


def observe(ctx, kind, case=None):
    out = ctx.sub("obs")
    nshards = 16 if not case else 1
    args = ["observe", "-seed", ctx.seed, "-out", out, "-shards", nshards]
    if case:
        args += ["-case", case]
    else:
        args += population(ctx, kind)
    r = ctx.vh(args)
    log(r.stdout.strip().splitlines()[-1])
    shards = sorted(glob.glob(os.path.join(out, "obs-*.json")))
    summary = json.load(open(os.path.join(out, "observe-summary.json")))
    return out, shards, summary


def report(ctx, results, cfg, module):
    """Turn TLC invariant violations into VIOLATION lines with replay directories."""
    for sf, r in results:
        if not r.violations:
            continue
        obs = json.load(open(sf))
        byg = {}
        for name, vars_, txt in r.violations:
            g = int(vars_.get("g", "0"))
            byg.setdefault(g, []).append(name)
        for g, names in sorted(byg.items()):
            o = obs[g - 1]
            key = "%s:%s" % (o["id"], ",".join(sorted(set(names))))
            d = ctx.replay_dir(key)
            cases = {c["id"]: c for c in json.load(open(os.path.join(os.path.dirname(sf), "cases.json")))}
            json.dump(cases[o["id"]], open(os.path.join(d, "case.json"), "w"), indent=1)
            json.dump([o], open(os.path.join(d, "obs.json"), "w"))
            json.dump({"property": ctx.prop, "module": module, "cfg": cfg, "invariants": sorted(set(names)),
                       "kind": "conf"}, open(os.path.join(d, "meta.json"), "w"), indent=1)
            rules = "; ".join("%s -> %s" % (ru["lhs"], " ".join(ru["rhs"] or [])) for ru in o["g"]["rules"][1:])
            ctx.violation(key, d, "grammar %s violates %s\n%s\nprec=%s outcome=%s diag=%s" % (
                o["id"], ",".join(sorted(set(names))), rules, json.dumps(o["g"]["tokprec"]),
                o["outcome"], o["diag"][:200]))


def samples_from(shards, n=4):
    res = []
    for sf in shards[:2]:
        for o in json.load(open(sf))[:n]:
            res.append({"id": o["id"], "rules": ["%s -> %s" % (r["lhs"], " ".join(r["rhs"] or [])) for r in o["g"]["rules"]],
                        "outcome": o["outcome"], "states": len(o["states"])})
            if len(res) >= n:
                return res
    return res


def run_conf(ctx, replay, kind, module, cfg, guards):
    """Generic driver.  guards(stats, summary) raises Inconclusive on vacuity."""
    case = None
    if replay:
        case = os.path.join(replay, "case.json")
    out, shards, summary = observe(ctx, kind, case)
    results = run_tlc_shards(ctx, module, cfg, shards, timeout=ctx.pick(900, 3000))
    require_clean(results)
    add_tlc_cov(ctx, results, "%s/%s on recorded constructions" % (module, cfg))
    stats = sum_stats(results)
    report(ctx, results, cfg, module)
    ctx.cov["traces_validated_against_impl"] += summary["cases"]
    ctx.cov["evaluations"] += summary["cases"]
    ctx.cov["samples"] += samples_from(shards)
    ctx.cov["conf_stats"] = stats
    ctx.cov["outcomes"] = summary["outcomes"]
    if not replay:
        guards(stats, summary)
    return stats, summary
