"""Shared machinery for the /verif checks: building from /repo's working tree,
running TLC, sharding, evidence, replay directories, known findings.

Exit codes: 0 property held on everything explored; 1 violation (a line
"VIOLATION property=<id> replay=<path>" was printed); 2 inconclusive
(build failure, TLC crash/timeout, vacuity guard) -- never a violation.
"""
import concurrent.futures
import hashlib
import json
import os
import re
import shutil
import subprocess
import sys
import time

VERIF = os.path.dirname(os.path.dirname(os.path.abspath(__file__)))
REPO = os.environ.get("VERIF_REPO", "/repo")
SPEC = os.path.join(VERIF, "spec")
TLA_CP = "/opt/veriftools/tla/tla2tools.jar:/opt/veriftools/tla/CommunityModules-deps.jar"
NODE22 = "/root/.nvm/versions/node/v22.22.2/bin/node"
NCPU = os.cpu_count() or 4

GOENV = dict(os.environ)
GOENV.update({"GOFLAGS": "-mod=mod", "GOPROXY": "off", "GOSUMDB": "off", "GOTOOLCHAIN": "local",
              "CGO_ENABLED": "0"})


class Inconclusive(Exception):
    pass


def log(*a):
    print(*a, flush=True)


class Ctx:
    def __init__(self, prop, tier, seed):
        self.prop = prop
        self.tier = tier
        self.seed = seed
        self.t0 = time.time()
        self.work = os.path.join(VERIF, ".work", "%s-%s-%d" % (prop, tier, os.getpid()))
        shutil.rmtree(self.work, ignore_errors=True)
        os.makedirs(self.work)
        self.violations = []      # (key, replay path, text)
        self.known_hits = []
        self.cov = {"states": 0, "transitions": 0, "traces_validated_against_impl": 0, "samples": [],
                    "evaluations": 0, "distinct_nontrivial": 0, "rule": "", "tlc_runs": []}
        self.assumptions = []
        self._vh = None
        self._cli = None

    def quick(self):
        return self.tier == "quick"

    def pick(self, q, t):
        return q if self.tier == "quick" else t

    def sub(self, name):
        d = os.path.join(self.work, name)
        os.makedirs(d, exist_ok=True)
        return d

    # ---- building from /repo's current working tree -----------------------
    def harness(self):
        if self._vh:
            return self._vh
        src = self.sub("harness-src")
        for f in os.listdir(os.path.join(VERIF, "harness")):
            if f.endswith(".go") or f == "go.mod":
                shutil.copy(os.path.join(VERIF, "harness", f), src)
        shutil.copy(os.path.join(REPO, "go.sum"), os.path.join(src, "go.sum"))
        if REPO != "/repo":
            p = os.path.join(src, "go.mod")
            s = open(p).read().replace("=> /repo", "=> " + REPO)
            open(p, "w").write(s)
        out = os.path.join(self.work, "vh")
        r = subprocess.run(["go", "build", "-tags", "verif", "-o", out, "."], cwd=src, env=GOENV,
                           stdout=subprocess.PIPE, stderr=subprocess.STDOUT, text=True)
        if r.returncode != 0:
            raise Inconclusive("harness does not build against %s:\n%s" % (REPO, r.stdout[-3000:]))
        self._vh = out
        return out

    def cli(self):
        if self._cli:
            return self._cli
        out = os.path.join(self.work, "yaccgo")
        r = subprocess.run(["go", "build", "-o", out, "./yaccgo"], cwd=REPO, env=GOENV,
                           stdout=subprocess.PIPE, stderr=subprocess.STDOUT, text=True)
        if r.returncode != 0:
            raise Inconclusive("yaccgo CLI does not build:\n%s" % r.stdout[-3000:])
        self._cli = out
        return out

    def vh(self, args, cwd=None, timeout=3600, check=True):
        r = subprocess.run([self.harness()] + [str(a) for a in args], cwd=cwd or self.work, env=GOENV,
                           stdout=subprocess.PIPE, stderr=subprocess.STDOUT, text=True, timeout=timeout)
        if check and r.returncode != 0:
            raise Inconclusive("harness %s failed (%d):\n%s" % (args[0], r.returncode, r.stdout[-3000:]))
        return r

    # ---- verdicts ----------------------------------------------------------
    def replay_dir(self, key):
        h = hashlib.sha1(key.encode()).hexdigest()[:10]
        d = os.path.join(os.environ.get("VERIF_REPLAY_DIR") or os.path.join(VERIF, "replay"), "%s-%s" % (self.prop, h))
        shutil.rmtree(d, ignore_errors=True)
        os.makedirs(d)
        return d

    def violation(self, key, replay, text):
        kf = match_known(self.prop, key, text)
        if kf is not None:
            if kf not in self.known_hits:
                self.known_hits.append(kf)
                log("KNOWN-FINDING: property=%s %s" % (self.prop, kf["what"]))
            return
        self.violations.append((key, replay, text))
        log("VIOLATION property=%s replay=%s" % (self.prop, replay))
        log("  " + text.replace("\n", "\n  ")[:2000])

    def finish(self, level, extra=None):
        cov = dict(self.cov)
        if extra:
            cov.update(extra)
        cov["samples"] = cov["samples"][:8]
        ev = {"property_id": self.prop, "tier": self.tier, "seed": self.seed, "level": level,
              "coverage": cov, "assumptions": self.assumptions,
              "wall_s": round(time.time() - self.t0, 1), "violations": len(self.violations),
              "known_findings_hit": [k["what"] for k in self.known_hits]}
        evdir = os.environ.get("VERIF_EVIDENCE_DIR") or os.path.join(VERIF, "evidence")
        os.makedirs(evdir, exist_ok=True)
        with open(os.path.join(evdir, self.prop + ".json"), "w") as f:
            json.dump(ev, f, indent=1)
        if not os.environ.get("VERIF_KEEP"):
            shutil.rmtree(self.work, ignore_errors=True)
        log("%s %s seed=%d: %s in %.1fs" % (self.prop, self.tier, self.seed,
                                            "VIOLATIONS=%d" % len(self.violations) if self.violations else "ok",
                                            time.time() - self.t0))
        return 1 if self.violations else 0


# ---- known findings ----------------------------------------------------------
def load_known():
    res = []
    p = os.path.join(VERIF, "KNOWN_FINDINGS.txt")
    if not os.path.exists(p):
        return res
    for line in open(p):
        line = line.strip()
        m = re.match(r"known: property=(\S+) key=(\S+) (.*)$", line)
        if m:
            res.append({"prop": m.group(1), "key": m.group(2), "what": m.group(3)})
    return res


def match_known(prop, key, text):
    for k in load_known():
        if k["prop"] == prop and re.search(k["key"], key):
            return k
    return None


# ---- TLC ---------------------------------------------------------------------
class TLCResult:
    def __init__(self):
        self.out = ""
        self.rc = None
        self.violations = []   # list of (invariant/property name, {var: value-text})
        self.generated = 0
        self.distinct = 0
        self.stats = []        # parsed STATS records (TLA text)
        self.errors = []       # evaluation / parse errors (inconclusive)
        self.coverage = {}
        self.diameter = 0
        self.wall = 0.0


def stage_spec(dst, modules=None):
    os.makedirs(dst, exist_ok=True)
    for root, _, files in os.walk(SPEC):
        for f in files:
            if f.endswith(".tla") or f.endswith(".cfg"):
                shutil.copy(os.path.join(root, f), dst)


def parse_tlc(out):
    r = TLCResult()
    r.out = out
    lines = out.splitlines()
    i = 0
    while i < len(lines):
        ln = lines[i]
        m = re.match(r"Error: Invariant (\S+) is violated", ln)
        m2 = re.match(r"Error: Action property (\S+) is violated", ln) or re.match(r"Error: Temporal properties were violated", ln)
        if m or m2:
            name = m.group(1) if m else (m2.group(1) if m2.groups() else "temporal")
            vars_ = {}
            j = i + 1
            if j < len(lines) and lines[j].startswith("Error: The behavior up to this point is"):
                j += 1
            blk = []
            while j < len(lines) and not lines[j].startswith("Error:") and not lines[j].startswith("Finished") \
                    and not lines[j].startswith("Model checking") and not lines[j].startswith("Progress(") and len(blk) < 400000:
                blk.append(lines[j])
                j += 1
            txt = "\n".join(blk)
            # the last state of the behaviour wins
            # (a long value is printed over several lines: continuation lines are joined to their variable)
            cur = None
            for bl in blk:
                vm = re.match(r"^(?:/\\ )?(\w+) = (.*)$", bl)
                if vm and (bl.startswith("/\\ ") or not bl.startswith(" ")):
                    cur = vm.group(1)
                    vars_[cur] = vm.group(2)
                elif re.match(r"^State \d+:|^\d+: ", bl) or not bl.strip():
                    cur = None
                elif cur is not None:
                    vars_[cur] += " " + bl.strip()
            r.violations.append((name, vars_, txt[-4000:]))
            i = j
            continue
        if ln.startswith("Error:") and "is violated" not in ln:
            blk = [ln] + lines[i + 1:i + 12]
            r.errors.append("\n".join(blk))
        m = re.match(r"(\d+) states generated, (\d+) distinct states found", ln)
        if m:
            r.generated, r.distinct = int(m.group(1)), int(m.group(2))
        m = re.match(r"The depth of the complete state graph search is (\d+)", ln)
        if m:
            r.diameter = int(m.group(1))
        i += 1
    # STATS printouts may span lines: << "STATS", [ ... ] >>
    for m in re.finditer(r"<<\s*\"STATS\",\s*(\[.*?\])\s*>>", out, re.S):
        rec = {}
        for fm in re.finditer(r"(\w+) \|-> (-?\d+)", m.group(1)):
            rec[fm.group(1)] = int(fm.group(2))
        r.stats.append(rec)
    return r


def run_tlc(workdir, module, cfg, timeout=1800, heap="3g", workers=1, extra=None, gcthreads=2):
    """Run TLC in workdir (spec files must already be staged there)."""
    md = os.path.join(workdir, "md-" + cfg.replace(".cfg", ""))
    cmd = ["java", "-Xmx" + heap, "-Xss64m", "-XX:+UseParallelGC", "-XX:ParallelGCThreads=%d" % gcthreads,
           "-cp", TLA_CP, "tlc2.TLC", "-metadir", md, "-workers", str(workers), "-config", cfg]
    cmd += extra or []
    cmd.append(module)
    t0 = time.time()
    try:
        p = subprocess.run(cmd, cwd=workdir, stdout=subprocess.PIPE, stderr=subprocess.STDOUT, text=True,
                           timeout=timeout)
        out, rc = p.stdout, p.returncode
    except subprocess.TimeoutExpired as e:
        out = (e.stdout or b"").decode() if isinstance(e.stdout, bytes) else (e.stdout or "")
        r = parse_tlc(out)
        r.rc = -9
        r.errors.append("TLC timed out after %ds" % timeout)
        return r
    r = parse_tlc(out)
    r.rc = rc
    r.wall = time.time() - t0
    shutil.rmtree(md, ignore_errors=True)
    if "Model checking completed" not in out and not r.violations and not r.errors:
        r.errors.append("TLC did not complete (rc=%s): %s" % (rc, out[-1500:]))
    return r


def run_tlc_shards(ctx, module, cfg, shard_files, data_name="obs.json", timeout=1800, heap="3g", par=None,
                   extra=None, extra_files=None):
    """One TLC process per shard file, run in parallel.  Returns list of (shard_file, TLCResult)."""
    par = par or max(1, min(NCPU, len(shard_files)))
    jobs = []
    for k, sf in enumerate(shard_files):
        d = ctx.sub("tlc-%s-%d" % (cfg.replace(".cfg", ""), k))
        stage_spec(d)
        shutil.copy(sf, os.path.join(d, data_name))
        for name, src in (extra_files or {}).items():
            shutil.copy(src, os.path.join(d, name))
        jobs.append((sf, d))
    res = []
    with concurrent.futures.ThreadPoolExecutor(max_workers=par) as ex:
        futs = {ex.submit(run_tlc, d, module, cfg, timeout, heap, 1, extra): (sf, d) for sf, d in jobs}
        for f in concurrent.futures.as_completed(futs):
            sf, d = futs[f]
            r = f.result()
            res.append((sf, r))
    res.sort(key=lambda x: x[0])
    return res


def require_clean(results):
    """Raise Inconclusive if any TLC run had evaluation errors / timeouts."""
    for sf, r in results:
        if r.errors:
            raise Inconclusive("TLC error on %s:\n%s" % (sf, "\n".join(r.errors)[:3000]))


def add_tlc_cov(ctx, results, label):
    for sf, r in results:
        ctx.cov["states"] += r.distinct
        ctx.cov["transitions"] += r.generated
    ctx.cov["tlc_runs"].append({"label": label, "processes": len(results),
                                "distinct": sum(r.distinct for _, r in results),
                                "generated": sum(r.generated for _, r in results)})


def sum_stats(results):
    tot = {}
    for _, r in results:
        for rec in r.stats[:1]:
            for k, v in rec.items():
                tot[k] = tot.get(k, 0) + v
    return tot


def main_wrapper(fn, prop, argv):
    """Common CLI:  <tier> | --replay <path>"""
    seed = int(os.environ.get("VERIF_SEED", "1"))
    tier = os.environ.get("VERIF_TIER") or "quick"
    replay = None
    args = list(argv)
    while args:
        a = args.pop(0)
        if a in ("quick", "thorough"):
            tier = a
        elif a == "--replay":
            replay = args.pop(0)
    ctx = Ctx(prop, tier, seed)
    try:
        rc = fn(ctx, replay)
    except Inconclusive as e:
        log("INCONCLUSIVE property=%s: %s" % (prop, e))
        if not os.environ.get("VERIF_KEEP"):
            shutil.rmtree(ctx.work, ignore_errors=True)
        return 2
    except subprocess.TimeoutExpired as e:
        log("INCONCLUSIVE property=%s: timeout %s" % (prop, e))
        return 2
    except Exception:     # a defect of the machinery itself is never a verdict
        import traceback
        log("INCONCLUSIVE property=%s: internal error in the check\n%s" % (prop, traceback.format_exc()))
        return 2
    return rc


def setup():
    """MANIFEST.setup_cmd: verify the toolchain and warm the Go build cache."""
    ok = True
    for tool in (["java", "-version"], ["go", "version"], [NODE22, "--version"], ["strace", "-V"]):
        try:
            r = subprocess.run(tool, stdout=subprocess.PIPE, stderr=subprocess.STDOUT, text=True)
            log("setup: %s -> %s" % (tool[0], r.stdout.strip().splitlines()[0] if r.stdout.strip() else r.returncode))
        except FileNotFoundError:
            log("setup: MISSING %s" % tool[0])
            if tool[0] in ("java", "go"):
                ok = False
    ctx = Ctx("setup", "quick", 0)
    try:
        ctx.harness()
        ctx.cli()
        log("setup: harness and CLI build")
    except Inconclusive as e:
        log("setup: %s" % e)
        ok = False
    shutil.rmtree(ctx.work, ignore_errors=True)
    return 0 if ok else 2
