"""C17: the parse trace tells the truth."""
from vlib import Inconclusive
import runcamp


def run(ctx, replay):
    out, recs, rs = runcamp.run_level(ctx, replay, "RunTrace17.tla", ["C17_Truth", "C17_AcceptState"], trace=True,
                                     prefix="ttrace", variants="go,go-u,go-o,go-o-u")
    if not replay and (rs.get("ev_shift", 0) < ctx.pick(5000, 50000) or rs.get("ev_reduce", 0) < ctx.pick(2000, 20000)):
        raise Inconclusive("too few trace lines: %s" % rs)
    ctx.cov["rule"] = ("runs of the four Go variants with IsTrace = true; every printed line is one step of RunTrace17.tla (legal LR(0) "
                       "automaton step, exact rule text, current look-ahead, consistent state numbers, matches the executed action); "
                       "non-trivial = printed trace lines")
    ctx.cov["distinct_nontrivial"] = rs.get("ev_shift", 0) + rs.get("ev_reduce", 0)
    return ctx.finish("model_checking")
