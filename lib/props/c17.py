"""C17: the parse trace tells the truth."""
import glob
import json
import os

from vlib import Inconclusive, add_tlc_cov, require_clean, run_tlc_shards
import runcamp


def late_trace(ctx, out):
    """ConfLateTrace.tla: IsTrace switched on by the first action of a run; the late run shows what the full run shows from there."""
    shards = sorted(glob.glob(os.path.join(out, "late-*.json")))
    if not shards:
        raise Inconclusive("no late-trace observations were written")
    results = run_tlc_shards(ctx, "ConfLateTrace.tla", "ConfLateTrace.cfg", shards, timeout=ctx.pick(600, 3000), extra=["-continue"])
    require_clean(results)
    add_tlc_cov(ctx, results, "late run = full run minus the trace lines in front of the first action")
    n = inter = 0
    for sf, res in results:
        obs = json.load(open(sf))
        n += len(obs)
        for o in obs:
            ks = [x["k"] for x in o["full"]]
            if "R" in ks and "trace" in ks[ks.index("R"):]:
                inter += 1
        bad = {}
        for name, vars_, txt in res.violations:
            o = obs[int(vars_["m"]) - 1]
            bad.setdefault((o["case"], o["variant"]), o)
        for (cid, var), o in bad.items():
            key = "late:%s:%s" % (cid, var)
            d = ctx.replay_dir(key)
            json.dump({"property": "C17", "kind": "late-trace", "seed": ctx.seed, "obs": o}, open(os.path.join(d, "meta.json"), "w"), indent=1)
            ctx.violation(key, d, "grammar %s, variant %s, run %d: with IsTrace switched on by the first action the parser printed\n  %s\nbut with IsTrace on from the start it prints\n  %s" % (
                cid, var, o["run"], [x["s"] for x in o["late"]][:12], [x["s"] for x in o["full"]][:16]))
    if inter < 200:
        raise Inconclusive("late trace: only %d runs with trace lines after the first action" % inter)
    ctx.cov["late_trace_pairs"] = n
    ctx.cov["late_trace_pairs_with_lines_after_switch"] = inter


def run(ctx, replay):
    out, recs, rs = runcamp.run_level(ctx, replay, "RunTrace17.tla", ["C17_Truth", "C17_AcceptState"], trace=True,
                                     prefix="ttrace", variants="go,go-u,go-o,go-o-u")
    if not replay and (rs.get("ev_shift", 0) < ctx.pick(5000, 50000) or rs.get("ev_reduce", 0) < ctx.pick(2000, 20000)):
        raise Inconclusive("too few trace lines: %s" % rs)
    if not replay:
        late_trace(ctx, out)
    ctx.cov["rule"] = ("runs of the four Go variants with IsTrace = true; every printed line is one step of RunTrace17.tla (legal LR(0) "
                       "automaton step, exact rule text, current look-ahead, consistent state numbers, matches the executed action); "
                       "non-trivial = printed trace lines")
    ctx.cov["distinct_nontrivial"] = rs.get("ev_shift", 0) + rs.get("ev_reduce", 0)
    return ctx.finish("model_checking")
