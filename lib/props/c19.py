"""C19: a failed generation never damages an existing output file.
Pipeline.tla models `generate` as steps over the output file and is model-checked (file untouched unless every
fallible step is behind us); its scenario space (language x planted failure cause) is replayed against the real CLI
with a pre-existing output file, and the recorded outcomes are validated against the model (ConfPipeline.tla)."""
import hashlib
import json
import os
import random
import re
import shutil
import subprocess

import conf
from vlib import Inconclusive, add_tlc_cov, log, require_clean, run_tlc, stage_spec


def mutate(text, cause, rnd):
    """Plant one failure cause into a well-formed grammar file.  Returns None if not applicable."""
    i1 = text.index("\n%%\n")
    i2 = text.index("\n%%\n", i1 + 1)
    decl, rules, epi = text[:i1 + 1], text[i1 + 1:i2 + 1], text[i2 + 1:]
    rule_lines = rules.split("\n")
    idx = [k for k, ln in enumerate(rule_lines) if " :" in ln]
    if cause == "none":
        k = rnd.randrange(3)
        if k == 0:     # a very long line (generated tables, embedded data) in the epilogue: part of the text like any other
            return text + "// 100% of " + "0123456789abcdef" * 400 + "\nvar vhTail = 1 // %d %s %v\n"
        if k == 1:     # ... or in the prologue
            return text.replace("%{\n", "%{\n// " + "fedcba9876543210" * 300 + "\n", 1)
        return text + "// the last 5% of the file: %d items\n"
    if cause == "lexical":
        k = rnd.randrange(5)
        if k == 0:
            return decl + "@\n" + rules + epi
        if k == 1:
            j = rnd.choice(idx)
            rule_lines[j] = rule_lines[j].rstrip().rstrip(";") + " { unbalanced"
            return decl + "\n".join(rule_lines)   # brace never closed: swallows the rest
        if k == 2:
            j = rnd.choice(idx)
            rule_lines.insert(j, "/* never closed")      # between two rules, outside any action
            return decl + "\n".join(rule_lines) + epi
        if k == 3:
            j = rnd.choice(idx)
            rule_lines[j] = rule_lines[j].replace(" :", " : 'ab'", 1)
            return decl + "\n".join(rule_lines) + epi
        return decl + "%union { never closed\n" + rules + epi
    if cause == "syntax":
        k = rnd.randrange(3)
        if k == 0:
            return decl + rules[len("%%\n"):] + epi          # first %% missing
        if k == 1:
            return decl + "%type X\n" + rules + epi if False else decl.replace("%start", "%start %start", 1) + rules + epi
        j = rnd.choice(idx)
        rule_lines[j] = rule_lines[j].replace(" :", " : : ", 1)
        return decl + "\n".join(rule_lines) + epi
    if cause == "undefined":
        j = rnd.choice(idx)
        rule_lines[j] = rule_lines[j].replace(" :", " : UndefSym", 1)
        return decl + "\n".join(rule_lines) + epi
    if cause == "ruleless":
        return decl.replace("%start", "%type <ia> QQ\n%start", 1) + rules + epi
    if cause == "unproductive":
        return decl + rules + "UU : UU 'x' ;\n" + epi if False else decl + rules[:-1] + "UU : UU 'x' ;\n" + "\n" + epi[0:0] + text[i2 + 1:] if False else \
            decl + rules.rstrip("\n") + "\nUU : UU 'x' ;\n" + epi
    if cause in ("dollarrange", "dollarzero"):
        cands = [k for k in idx if "{" in rule_lines[k]]
        if not cands:
            return None
        j = rnd.choice(cands)
        bad = "$9" if cause == "dollarrange" else "$0"
        rule_lines[j] = rule_lines[j].replace("{ ", "{ _ = %s; " % bad if ".go." in "" else "{ vhLogR(%s); " % bad, 1)
        return decl + "\n".join(rule_lines) + epi
    raise ValueError(cause)


def run(ctx, replay):
    # 1. model check Pipeline.tla and obtain its scenario space
    d = ctx.sub("pipeline")
    stage_spec(d)
    res = run_tlc(d, "Pipeline.tla", "Pipeline.cfg", timeout=300)
    if res.errors or res.violations:
        raise Inconclusive("Pipeline.tla does not hold as modelled: %s %s" % (res.errors, [v[0] for v in res.violations]))
    add_tlc_cov(ctx, [("pipeline", res)], "generate pipeline over the output file, every (language, cause) (Pipeline.tla)")
    m = re.search(r'<<\s*"SCENARIOS",\s*\{(.*?)\}\s*>>', res.out, re.S)
    if not m:
        raise Inconclusive("could not read the scenario set from TLC")
    scen = re.findall(r'<<"(\w+)", "(\w+)">>', m.group(1))
    # 2. base files
    out = ctx.sub("render")
    if replay:
        obs_in = json.load(open(os.path.join(replay, "scenario.json")))
        todo = [(obs_in["lang"], obs_in["cause"], obs_in["opts"], open(os.path.join(replay, "input.y")).read(), obs_in["base"])]
    else:
        r = ctx.vh(["render", "-out", out, "-seed", ctx.seed, "-corpus", conf.CORPUS, "-nrand", ctx.pick(6, 160), "-nexpr", ctx.pick(2, 40),
                    "-nfeat", ctx.pick(2, 40), "-valued", 100])
        recs = json.load(open(os.path.join(out, "render.json")))
        rnd = random.Random(ctx.seed)
        rnd.shuffle(recs)
        recs = recs[:ctx.pick(24, 800)]
        todo = []
        for lang, cause in scen:
            for rec in recs:
                if (rec["lang"] == "go") != (lang == "go"):
                    continue
                text = open(os.path.join(out, rec["file"])).read()
                for rep in range(ctx.pick(2, 5) if cause in ("lexical", "syntax") else 1):
                    t = mutate(text, cause, rnd)
                    if t is None or (cause != "none" and t == text):
                        continue      # the cause could not be planted into this file
                    for opts in (["", "-u", "-o"] if lang == "go" else [""]):
                        todo.append((lang, cause, opts, t, rec["file"]))
    cli = ctx.cli()
    wd = ctx.sub("runs")
    obs = []
    texts = []
    for n, (lang, cause, opts, text, base) in enumerate(todo):
        inp = os.path.join(wd, "in.y")
        outp = os.path.join(wd, "out.gen")
        open(inp, "w").write(text)
        # the file that is already there: sometimes short, sometimes far longer than anything yaccgo writes
        old = ("OLD CONTENT %d %s\n" % (n, cause)).encode() * (3 if n % 2 == 0 else 20000)
        open(outp, "wb").write(old)
        args = [cli, "generate"] + ([opts] if opts else []) + [lang, "in.y", "out.gen"]
        try:
            p = subprocess.run(args, cwd=wd, stdout=subprocess.PIPE, stderr=subprocess.STDOUT, timeout=30)
            code, pout = p.returncode, p.stdout.decode(errors="replace")
        except subprocess.TimeoutExpired:
            code, pout = -9, "timeout"
        new = open(outp, "rb").read() if os.path.exists(outp) else b""
        i2 = text.find("\n%%\n", text.find("\n%%\n") + 1)
        epi = text[i2 + 3:].encode() if i2 > 0 else b""
        obs.append({"lang": lang, "cause": cause, "opts": opts, "exit": code, "changed": new != old,
                    "complete": new != old and new.endswith(epi) and len(epi) > 0 and len(new) > len(epi), "base": base,
                    "diag": pout[-200:]})
        texts.append(text)
    # 3. validate the recorded outcomes against the model
    d2 = ctx.sub("tlc-pipe")
    stage_spec(d2)
    json.dump(obs, open(os.path.join(d2, "obs.json"), "w"))
    res2 = run_tlc(d2, "ConfPipeline.tla", "ConfPipeline.cfg", timeout=600, extra=["-continue"])
    require_clean([("pipe", res2)])
    add_tlc_cov(ctx, [("conf", res2)], "recorded CLI runs vs the model's outcome (ConfPipeline.tla)")
    seen = set()
    for name, vars_, txt in res2.violations:
        k = int(vars_["m"]) - 1
        o = obs[k]
        sig = (o["cause"], o["lang"], o["opts"], name)
        if sig in seen:
            continue
        seen.add(sig)
        key = "%s:%s:%s:%s:%s" % (o["lang"], o["opts"], o["cause"], name, hashlib.sha1(texts[k].encode()).hexdigest()[:8])
        dd = ctx.replay_dir(key)
        open(os.path.join(dd, "input.y"), "w").write(texts[k])
        json.dump(o, open(os.path.join(dd, "scenario.json"), "w"), indent=1)
        json.dump({"property": "C19", "kind": "pipeline", "invariant": name}, open(os.path.join(dd, "meta.json"), "w"))
        ctx.violation(key, dd, "yaccgo generate %s %s with planted cause '%s': exit=%s, output file changed=%s, complete=%s (%s)\n%s" % (
            o["opts"], o["lang"], o["cause"], o["exit"], o["changed"], o["complete"], name, o["diag"]))
    ctx.cov["evaluations"] += len(obs)
    ctx.cov["traces_validated_against_impl"] += len(obs)
    ctx.cov["distinct_nontrivial"] = sum(1 for o in obs if o["cause"] != "none")
    by = {}
    for o in obs:
        by[o["lang"] + ":" + o["cause"]] = by.get(o["lang"] + ":" + o["cause"], 0) + 1
    ctx.cov["scenarios"] = by
    ctx.cov["samples"] += [{k: o[k] for k in ("lang", "cause", "opts", "exit", "changed", "complete")} for o in obs[:6]]
    ctx.cov["rule"] = ("scenario = (language, option set, planted input-caused failure, base grammar): the CLI runs with a pre-existing "
                       "output file; non-trivial = failing scenarios (file must stay byte-identical); successful ones must end with the epilogue")
    if not replay:
        missing = [s for s in scen if (s[0] + ":" + s[1]) not in by]
        if missing:
            raise Inconclusive("scenarios of the model not exercised: %s" % missing)
    return ctx.finish("fault_enumeration")
