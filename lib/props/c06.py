"""C06: syntax errors at the first bad token via the error channel (table level + run level)."""
from vlib import Inconclusive
import driverconf
import runcamp


def run(ctx, replay):
    import json, os
    kind = json.load(open(os.path.join(replay, "meta.json")))["kind"] if replay else None
    st = {"inputs_on_conflict_free": 0}
    if kind in (None, "driver"):
        st = driverconf.run_driver(ctx, replay)
    if kind in (None, "run"):
        out, recs, rs = runcamp.run_level(ctx, replay, "RunTrace.tla", runcamp.INVS["C06"])
        if not replay and rs.get("verdict_syntaxerr", 0) < ctx.pick(1000, 10000):
            raise Inconclusive("too few rejecting runs: %s" % rs)
    ctx.cov["rule"] = ("every run must end as accept or documented syntax error (Go: panic 'Grammar error...', TypeScript: logged error + "
                       "null); on conflict-free grammars the number of GetToken calls equals Earley's first bad position; non-trivial = "
                       "rejecting runs + table-level inputs of conflict-free grammars")
    ctx.cov["distinct_nontrivial"] = st.get("inputs_on_conflict_free", 0) + ctx.cov.get("run_level", {}).get("verdict_syntaxerr", 0)
    return ctx.finish("model_checking")
