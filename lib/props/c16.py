"""C16: generated code is well-formed for every accepted grammar (toolchain is the judge)."""
import json
import os
import shutil

import runcamp
from vlib import Inconclusive, add_tlc_cov, log, require_clean, run_tlc, stage_spec


def run(ctx, replay):
    if replay:
        out, recs = runcamp.campaign(ctx, "mix", cases=os.path.join(replay, "cases.json"), keep=True)
    else:
        q = ctx.quick()
        out = ctx.sub("camp")
        args = ["campaign", "-cli", ctx.cli(), "-node", runcamp.NODE22, "-runts", runcamp.RUNTS, "-out", out, "-seed", ctx.seed,
                "-shards", 4, "-par", 16, "-vet", "-corpus", runcamp.conf.CORPUS, "-nfeat", 50 if q else 700, "-featctrl", "-nlong", 8 if q else 60, "-ntok", 30 if q else 300, "-nrand", 16 if q else 200,
                "-nexpr", 6 if q else 60, "-valued", 50, "-limit", 30, "-nrandom", 6]
        r = ctx.vh(args, timeout=3300)
        log(r.stdout.strip().splitlines()[-1])
        recs = json.load(open(os.path.join(out, "campaign.json")))
    d = ctx.sub("tlc-build")
    stage_spec(d)
    shutil.copy(os.path.join(out, "campaign.json"), os.path.join(d, "obs.json"))
    res = run_tlc(d, "ConfBuild.tla", "ConfBuild.cfg", timeout=600, extra=["-continue"])
    require_clean([("build", res)])
    add_tlc_cov(ctx, [("build", res)], "acceptance rule over recorded generation/build outcomes (ConfBuild.tla)")
    cases = {c["id"]: c for c in json.load(open(os.path.join(out, "cases.json")))}
    seen = set()
    for name, vars_, txt in res.violations:
        cr = recs[int(vars_["cs"]) - 1]
        vr = cr["variants"][int(vars_["v"]) - 1]
        if (cr["id"], name) in seen:
            continue
        seen.add((cr["id"], name))
        key = "%s:%s:%s" % (cr["id"], vr["variant"], name)
        dd = ctx.replay_dir(key)
        json.dump([cases[cr["id"]]], open(os.path.join(dd, "cases.json"), "w"), indent=1)
        json.dump({"property": "C16", "kind": "build", "variant": vr["variant"], "invariant": name}, open(os.path.join(dd, "meta.json"), "w"))
        src = os.path.join(vr["dir"], "g.y")
        if os.path.exists(src):
            shutil.copy(src, os.path.join(dd, "g.y"))
        ctx.violation(key, dd, "grammar %s variant %s: %s\ngenerate exit=%s %s\nbuild: %s\nrun: %s" % (
            cr["id"], vr["variant"], name, vr["gen_exit"], vr["gen_out"][-300:], vr["build_out"][:600], vr["run_err"][:300]))
    # a library user may generate several parsers in one process: the file generated AFTER a generation with another
    # option set must be as good as the CLI's (same bytes: already judged above; otherwise it is built here)
    seqs = {"go": "o,plain", "go-u": "ou,u", "go-o": "plain,o", "go-o-u": "u,ou"}
    nseq = 0
    if not replay:
        import subprocess
        vh = ctx.harness()
        sd = ctx.sub("seq")
        for cr in recs[:ctx.pick(8, 60)]:
            for vr in cr["variants"]:
                if vr["variant"] not in seqs or vr["gen_exit"] != 0 or not vr["build_ok"]:
                    continue
                gy, cli_out = os.path.join(vr["dir"], "g.y"), os.path.join(vr["dir"], "main.go")
                if not (os.path.exists(gy) and os.path.exists(cli_out)):
                    continue
                wd = os.path.join(sd, "%s-%s" % (cr["index"], vr["variant"]))
                os.makedirs(wd, exist_ok=True)
                p = subprocess.run([vh, "gen2", "-file", gy, "-lang", "go", "-seq", seqs[vr["variant"]], "-dir", wd, "-keepout"],
                                   stdout=subprocess.PIPE, stderr=subprocess.STDOUT, text=True, timeout=120)
                second = os.path.join(wd, "gen2-1.out")
                if p.returncode != 0 or not os.path.exists(second):
                    raise Inconclusive("in-process generation sequence failed for %s %s: %s" % (cr["id"], vr["variant"], p.stdout[-300:]))
                nseq += 1
                if open(second, "rb").read() == open(cli_out, "rb").read():
                    continue
                bd = os.path.join(wd, "b")
                os.makedirs(bd, exist_ok=True)
                shutil.copy(second, os.path.join(bd, "main.go"))
                open(os.path.join(bd, "go.mod"), "w").write("module vhseq\n\ngo 1.18\n")
                env = dict(os.environ, GOFLAGS="-mod=mod", GOPROXY="off", GOTOOLCHAIN="local", CGO_ENABLED="0")
                b = subprocess.run(["go", "build", "-o", "p", "."], cwd=bd, env=env, stdout=subprocess.PIPE, stderr=subprocess.STDOUT, text=True, timeout=300)
                if b.returncode != 0:
                    key = "%s:%s:sequence" % (cr["id"], vr["variant"])
                    dd = ctx.replay_dir(key)
                    json.dump([cases[cr["id"]]], open(os.path.join(dd, "cases.json"), "w"), indent=1)
                    json.dump({"property": "C16", "kind": "build", "variant": vr["variant"], "invariant": "C16_Builds", "sequence": seqs[vr["variant"]]}, open(os.path.join(dd, "meta.json"), "w"))
                    shutil.copy(gy, os.path.join(dd, "g.y"))
                    shutil.copy(second, os.path.join(dd, "second-output.go"))
                    ctx.violation(key, dd, "grammar %s: generated in one process with the option sets [%s] one after the other, the second file (no error reported) does not build:\n%s" % (
                        cr["id"], seqs[vr["variant"]], b.stdout[:600]))
    ctx.cov["in_process_sequences"] = nseq
    nvar = sum(len(cr["variants"]) for cr in recs)
    nok = sum(1 for cr in recs for vr in cr["variants"] if vr["gen_exit"] == 0 and vr["build_ok"])
    vet = sum(1 for cr in recs for vr in cr["variants"] if vr.get("vet_out", "").strip())
    ctx.cov["evaluations"] += nvar
    ctx.cov["traces_validated_against_impl"] += nvar
    ctx.cov["distinct_nontrivial"] = nok
    ctx.cov["vet_complaints_recorded_not_judged"] = vet
    ctx.cov["rule"] = ("each (grammar, variant) is one case: generated through the CLI, then `go build` (Go variants) or loaded under node "
                       "22 after type stripping (TypeScript); population = corpus + random + operator grammars + surface-feature grammars "
                       "(identifier shapes incl. digits/underscores/non-ASCII letters, printable ASCII literals plus tab and line feed, rule lengths 0..6, "
                       "tag mixes, with and without union/precedence); non-trivial = variants that generated and built")
    ctx.cov["samples"] += [{"id": cr["id"], "variants": [(v["variant"], v["gen_exit"], v["build_ok"]) for v in cr["variants"]]} for cr in recs[:3]]
    ctx.assumptions += ["no tsc in the sandbox: TypeScript is loaded after node's own type stripping, not type-checked",
                        "token names are not Go/TypeScript keywords, predeclared identifiers, or identifiers of the templates"]
    if not replay and nvar < ctx.pick(300, 3000):
        raise Inconclusive("too few variants: %d" % nvar)
    return ctx.finish("exploration")
