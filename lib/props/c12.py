"""C12: unusable grammars are rejected (with a diagnostic), usable ones are not."""
from vlib import Inconclusive
import conf


def run(ctx, replay):
    def guards(stats, summary):
        oc = summary["outcomes"]
        if oc.get("ok", 0) < ctx.pick(300, 5000) or oc.get("panic", 0) + oc.get("error", 0) < ctx.pick(300, 5000):
            raise Inconclusive("population lacks accepted or rejected grammars: %s" % oc)
    stats, summary = conf.run_conf(ctx, replay, "lr0", "ConfLR0.tla", "ConfLR0_C12.cfg", guards)
    ctx.cov["rule"] = ("grammars with and without planted undefined symbols, rule-less %type nonterminals and unproductive nonterminals "
                       "(reachable or not), plus exhaustive small grammars; one case per grammar; non-trivial = all (both outcomes matter)")
    ctx.cov["distinct_nontrivial"] = summary["cases"]
    ctx.assumptions += ["a refusal is a returned error or a panic with a message (the CLI turns both into a non-zero exit)"]
    return ctx.finish("model_checking")
