"""C18: the debug listing and the automaton diagram describe the generated parser.
One in-process run per grammar with DebugFlags on: the printed listing (state blocks, GOTO lines, look-ahead section)
and DrawGrammar(GTable).String() are parsed and compared by TLC with the tables of that same run (Listing.tla,
ConfListing.tla)."""
import glob
import json
import os

import conf
from vlib import Inconclusive, add_tlc_cov, log, require_clean, run_tlc_shards


def run(ctx, replay):
    out = ctx.sub("list")
    args = ["listobs", "-out", out, "-seed", ctx.seed, "-shards", 16]
    if replay:
        raise Inconclusive("replay: the failing grammar is in case.json; run `harness listobs` on it (not automated)")
    args += ["-corpus", conf.CORPUS, "-nrand", ctx.pick(200, 12000), "-nexpr", ctx.pick(40, 2000), "-nfeat", ctx.pick(60, 3000), "-nlong", ctx.pick(12, 400),
             "-ndp", ctx.pick(40, 2000), "-nctx", ctx.pick(40, 2000), "-small-max", 3, "-small-slices", ctx.pick(40, 4), "-small-slice", ctx.seed % ctx.pick(40, 4)]
    r = ctx.vh(args, timeout=3300)
    log(r.stdout.strip().splitlines()[-1])
    shards = [s for s in sorted(glob.glob(os.path.join(out, "lobs-*.json")))]
    results = run_tlc_shards(ctx, "ConfListing.tla", "ConfListing.cfg", shards, timeout=ctx.pick(900, 3300), extra=["-continue"])
    require_clean(results)
    add_tlc_cov(ctx, results, "parsed listing and DOT graph vs the tables of the same run (ConfListing.tla)")
    cases = {c["id"]: c for c in json.load(open(os.path.join(out, "cases.json")))}
    total = nstates = 0
    notes = []
    for sf, res in results:
        obs = json.load(open(sf))
        total += len(obs)
        notes += [(o["id"], o["parsenotes"][:2]) for o in obs if o["parsenotes"]]
        nstates += sum(len(o["table"]) for o in obs)
        by = {}
        for name, vars_, txt in res.violations:
            o = obs[int(vars_["m"]) - 1]
            by.setdefault(o["id"], (o, []))[1].append(name)
        for oid, (o, names) in by.items():
            key = "%s:%s" % (oid, ",".join(sorted(set(names))))
            d = ctx.replay_dir(key)
            json.dump(cases[oid], open(os.path.join(d, "case.json"), "w"), indent=1)
            json.dump({"property": "C18", "kind": "listing", "invariants": sorted(set(names)), "parsenotes": o["parsenotes"]},
                      open(os.path.join(d, "meta.json"), "w"), indent=1)
            json.dump([o], open(os.path.join(d, "obs.json"), "w"))
            rules = "; ".join("%s -> %s" % (ru["lhs"], " ".join(ru["rhs"] or [])) for ru in o["g"]["rules"][1:])
            ctx.violation(key, d, "grammar %s: listing/diagram disagrees with the tables of the same run: %s\n%s\n%s" % (
                oid, ",".join(sorted(set(names))), rules, o["parsenotes"][:2]))
    ctx.cov["evaluations"] += total
    ctx.cov["traces_validated_against_impl"] += total
    ctx.cov["distinct_nontrivial"] = total
    ctx.cov["states_compared"] = nstates
    o0 = json.load(open(shards[0]))[0]
    ctx.cov["samples"] += [{"id": o0["id"], "listing_state_1": o0["lstates"][0], "diagram_edges": o0["dedges"][:3]}]
    ctx.cov["rule"] = ("one case per accepted grammar (corpus, random, operator, surface-feature incl. literals that are DOT metacharacters, "
                       "reads/includes stress, same-core families, a slice of the exhaustive small grammars); non-trivial = grammars")
    if notes and not ctx.violations:
        raise Inconclusive("the harness could not parse some listing/diagram lines (harness or format drift): %s" % notes[:3])
    if total < ctx.pick(400, 4000):
        raise Inconclusive("too few grammars: %d" % total)
    return ctx.finish("model_checking")
