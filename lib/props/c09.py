"""C09: parser states are exactly the canonical LR(0) collection."""
from vlib import Inconclusive
import conf


def run(ctx, replay):
    def guards(stats, summary):
        if stats.get("ok", 0) < ctx.pick(300, 5000):
            raise Inconclusive("too few accepted grammars: %s" % stats)
    stats, summary = conf.run_conf(ctx, replay, "lr0", "ConfLR0.tla", "ConfLR0_C09.cfg", guards)
    ctx.cov["rule"] = ("grammars: corpus + exhaustive small grammars (<=3 rules over {S,A,a,b}, a 1/8 slice in quick) + seeded random "
                       "families; each accepted grammar's recorded LR0Closure (item sets, goto lists) is one case; non-trivial = accepted "
                       "by yaccgo (has an automaton)")
    ctx.cov["distinct_nontrivial"] = stats.get("ok", 0)
    ctx.cov["lr0_states_compared"] = stats.get("lr0states", 0)
    ctx.assumptions += ["TLC evaluates Clo0/Goto0/States0 (spec/LR0.tla) correctly", "harness projection state -> item set is faithful"]
    return ctx.finish("model_checking")
