"""C09: parser states are exactly the canonical LR(0) collection.
Conformance: recorded LR0Closure vs the canonical collection (ConfLR0.tla).  Design level: the worklist construction
as a state machine (LR0Algo.tla), model-checked on the corpus grammars and a sample of the recorded ones."""
import glob
import json
import os

from vlib import Inconclusive, add_tlc_cov, run_tlc, stage_spec
import conf


def algo_model(ctx):
    """LR0Algo.tla over the accepted corpus grammars + a sample of the other recorded grammars (small automata)."""
    shards = sorted(glob.glob(os.path.join(ctx.work, "obs", "obs-*.json")))
    gs = []
    for sf in shards:
        for o in json.load(open(sf)):
            if o["outcome"] == "ok" and len(o["states"]) <= 14 and (o["id"].startswith("corpus-") or len(gs) < ctx.pick(120, 1200)):
                gs.append({"id": o["id"], "g": o["g"]})
    d = ctx.sub("lr0algo")
    stage_spec(d)
    json.dump(gs, open(os.path.join(d, "grammars.json"), "w"))
    res = run_tlc(d, "LR0Algo.tla", "LR0Algo.cfg", timeout=ctx.pick(600, 3000), heap="6g", workers=8)
    if res.errors or res.violations:
        raise Inconclusive("LR0Algo.tla model check failed: %s %s" % (res.errors, [v[0] for v in res.violations]))
    add_tlc_cov(ctx, [("lr0algo", res)], "worklist construction as a state machine on %d grammars (LR0Algo.tla)" % len(gs))


def run(ctx, replay):
    def guards(stats, summary):
        if stats.get("ok", 0) < ctx.pick(300, 5000):
            raise Inconclusive("too few accepted grammars: %s" % stats)
    stats, summary = conf.run_conf(ctx, replay, "lr0", "ConfLR0.tla", "ConfLR0_C09.cfg", guards)
    if not replay:
        algo_model(ctx)
    ctx.cov["rule"] = ("grammars: corpus + exhaustive small grammars (<=3 rules over {S,A,a,b}, a 1/8 slice in quick) + seeded random "
                       "families; each accepted grammar's recorded LR0Closure (item sets, goto lists) is one case; non-trivial = accepted "
                       "by yaccgo (has an automaton)")
    ctx.cov["distinct_nontrivial"] = stats.get("ok", 0)
    ctx.cov["lr0_states_compared"] = stats.get("lr0states", 0)
    ctx.assumptions += ["TLC evaluates Clo0/Goto0/States0 (spec/LR0.tla) correctly", "harness projection state -> item set is faithful"]
    return ctx.finish("model_checking")
