"""C07: $$ and $n address the right stack slots (attribute evaluation over the validated derivation)."""
import glob
import json
import os

from vlib import Inconclusive, add_tlc_cov, log, require_clean, run_tlc_shards
import runcamp


def text_level(ctx):
    """ReduceCode.tla: the cases of the generated reduce function, cut out of all five generated variants of grammars
    whose actions are arbitrary texts, against the substitution the specification defines (ConfReduceCode.tla);
    the scanner machine of ReduceScan.tla is model-checked against the function first."""
    out = ctx.sub("acts")
    r = ctx.vh(["actobs", "-cli", ctx.cli(), "-out", out, "-seed", ctx.seed, "-corpus", os.path.join(os.path.dirname(os.path.dirname(os.path.dirname(os.path.abspath(__file__)))), "corpus"),
                "-nrand", ctx.pick(150, 1500), "-nfeat", ctx.pick(60, 600), "-nlong", ctx.pick(40, 400), "-nexpr", ctx.pick(30, 300),
                "-shards", 16], timeout=3000)
    log(r.stdout.strip().splitlines()[-1])
    shards = sorted(glob.glob(os.path.join(out, "acts-*.json")))
    nvar = ncases = 0
    for sf in shards:
        for o in json.load(open(sf)):
            for v in o["variants"]:
                nvar += 1
                ncases += len(v["cases"])
                if not v["ok"]:
                    raise Inconclusive("text level: %s %s: %s" % (o["id"], v["variant"], v["note"]))
    if ncases < 1000:
        raise Inconclusive("text level: only %d cases cut" % ncases)
    results = run_tlc_shards(ctx, "ReduceScan.tla", "ReduceScan.cfg", shards[:1], timeout=600)
    require_clean(results)
    add_tlc_cov(ctx, results, "substitution scanner machine vs Subst and vs the two-pass reading, all texts <= 6 over {$,0,1,2,a}")
    results = run_tlc_shards(ctx, "ConfReduceCode.tla", "ConfReduceCode.cfg", shards, timeout=ctx.pick(600, 3000), extra=["-continue"])
    require_clean(results)
    add_tlc_cov(ctx, results, "reduce-function cases of the generated files vs ReduceCode.tla")
    texts = json.load(open(os.path.join(out, "texts.json")))
    for sf, res in results:
        obs = json.load(open(sf))
        byid = {}
        for name, vars_, txt in res.violations:
            o = obs[int(vars_["m"]) - 1]
            byid.setdefault(o["id"], (o, []))[1].append(name)
        for oid, (o, names) in byid.items():
            key = "text:%s:%s" % (oid, ",".join(sorted(set(names))))
            d = ctx.replay_dir(key)
            open(os.path.join(d, "grammar.y"), "w").write(texts[oid])
            json.dump({"property": "C07", "kind": "reduce-text", "seed": ctx.seed, "invariants": sorted(set(names)), "obs": o},
                      open(os.path.join(d, "meta.json"), "w"), indent=1)
            ctx.violation(key, d, "generated reduce function of %s violates %s (rules with arbitrary action texts; see grammar.y)" % (
                oid, ",".join(sorted(set(names)))))
    ctx.cov["evaluations"] += ncases
    ctx.cov["reduce_cases_checked_as_text"] = ncases
    ctx.cov["generated_files_cut"] = nvar


def run(ctx, replay):
    out, recs, rs = runcamp.run_level(ctx, replay, "RunTrace.tla", runcamp.INVS["C07"], flavour="values")
    if not replay and rs.get("verdict_accept", 0) < ctx.pick(800, 8000):
        raise Inconclusive("too few accepting runs of valued grammars: %s" % rs)
    if not replay:
        text_level(ctx)
    ctx.cov["rule"] = ("grammars with a three-field union, random tags on tokens and nonterminals and random arithmetic / concatenating "
                       "actions over random subsets of $1..$n; every accepting run's printed value is compared with EvalAct applied "
                       "bottom-up along the replayed derivation; non-trivial = accepting runs")
    ctx.cov["distinct_nontrivial"] = rs.get("verdict_accept", 0)
    return ctx.finish("model_checking")
