"""C07: $$ and $n address the right stack slots (attribute evaluation over the validated derivation)."""
from vlib import Inconclusive
import runcamp


def run(ctx, replay):
    out, recs, rs = runcamp.run_level(ctx, replay, "RunTrace.tla", runcamp.INVS["C07"], flavour="values")
    if not replay and rs.get("verdict_accept", 0) < ctx.pick(800, 8000):
        raise Inconclusive("too few accepting runs of valued grammars: %s" % rs)
    ctx.cov["rule"] = ("grammars with a three-field union, random tags on tokens and nonterminals and random arithmetic / concatenating "
                       "actions over random subsets of $1..$n; every accepting run's printed value is compared with EvalAct applied "
                       "bottom-up along the replayed derivation; non-trivial = accepting runs")
    ctx.cov["distinct_nontrivial"] = rs.get("verdict_accept", 0)
    return ctx.finish("model_checking")
