"""C03: look-ahead sets are exactly LALR(1); a warning appears iff an unresolved conflict exists."""
from vlib import Inconclusive
import conf


def run(ctx, replay):
    def guards(stats, summary):
        if stats.get("ok", 0) < ctx.pick(300, 5000) or stats.get("conflicted", 0) < ctx.pick(30, 500):
            raise Inconclusive("vacuity: %s" % stats)
    stats, summary = conf.run_conf(ctx, replay, "lalr", "ConfLALR.tla", "ConfLALR_C03.cfg", guards)
    ctx.cov["rule"] = ("per accepted grammar: every reduce point (state, rule) of the recorded automaton, its recorded look-ahead set "
                       "compared with the LR(1)-merge definition (itself cross-checked against DeRemer-Pennello per grammar); "
                       "warning presence compared with existence of a default-resolved cell; non-trivial = accepted grammars")
    ctx.cov["distinct_nontrivial"] = stats.get("ok", 0)
    ctx.cov["reduce_points_compared"] = stats.get("redpoints", 0)
    ctx.cov["grammars_with_conflicts"] = stats.get("conflicted", 0)
    return ctx.finish("model_checking")
