"""C03: look-ahead sets are exactly LALR(1); a warning appears iff an unresolved conflict exists.
Main check: recorded look-ahead sets / warnings vs the LR(1)-merge definition (ConfLALR.tla).
Supporting: the real lalr.Digraph on enumerated relations vs the closure equation (ConfDigraph.tla) and the
PlusCal model of Digraph/Traverse verified against the same equation (Digraph.tla)."""
import glob
import json
import os

import conf
from vlib import Inconclusive, add_tlc_cov, log, require_clean, run_tlc, run_tlc_shards, stage_spec


def digraph_part(ctx):
    out = ctx.sub("dig")
    r = ctx.vh(["digobs", "-out", out, "-shards", 16, "-seed", ctx.seed, "-maxn", ctx.pick(3, 4), "-nrand", ctx.pick(500, 5000)])
    log(r.stdout.strip())
    shards = [s for s in sorted(glob.glob(os.path.join(out, "dig-*.json"))) if "summary" not in s]
    results = run_tlc_shards(ctx, "ConfDigraph.tla", "ConfDigraph.cfg", shards, timeout=ctx.pick(600, 3000), extra=["-continue"])
    require_clean(results)
    add_tlc_cov(ctx, results, "real lalr.Digraph vs closure equation (ConfDigraph.tla)")
    summ = json.load(open(os.path.join(out, "dig-summary.json")))
    ctx.cov["digraph_graphs"] = summ
    ctx.cov["evaluations"] += summ["exhaustive"] + summ["random"]
    for sf, res in results:
        if not res.violations:
            continue
        obs = json.load(open(sf))
        for name, vars_, txt in res.violations[:2]:
            o = obs[int(vars_.get("m", "1")) - 1]
            key = "digraph:%s:%s:%s" % (name, json.dumps(o["rel"]), json.dumps(o["fp"]))
            d = ctx.replay_dir(key)
            json.dump({"property": "C03", "kind": "digraph", "invariant": name, "obs": o}, open(os.path.join(d, "meta.json"), "w"))
            ctx.violation(key, d, "lalr.Digraph on relation %s with F' %s returned %s (panic=%s): violates %s" % (
                o["rel"], o["fp"], o["f"], o["panic"], name))
    # the algorithm model
    d = ctx.sub("digmodel")
    stage_spec(d)
    with open(os.path.join(d, "Digraph_run.cfg"), "w") as f:
        f.write("CONSTANTS Nodes = {1, 2, 3}\ndefaultInitValue = 0\nUniv = {1, 2}\nFixedFP = %s\nSPECIFICATION Spec\n"
                "INVARIANT DigraphCorrect\nINVARIANT PartialSound\nINVARIANT StackDistinct\nPROPERTY Terminates\nCHECK_DEADLOCK FALSE\n"
                % ctx.pick("TRUE", "FALSE"))
    res = run_tlc(d, "Digraph.tla", "Digraph_run.cfg", timeout=ctx.pick(600, 3300), heap="8g", workers=ctx.pick(8, 16))
    if res.errors or res.violations:
        raise Inconclusive("Digraph.tla model check failed: %s %s" % (res.errors, [v[0] for v in res.violations]))
    add_tlc_cov(ctx, [("digraph-model", res)], "PlusCal model of Digraph/Traverse, all relations on 3 nodes (Digraph.tla)")


def run(ctx, replay):
    kind = json.load(open(os.path.join(replay, "meta.json")))["kind"] if replay else None
    if kind == "digraph":
        raise Inconclusive("digraph findings are replayed by `harness digobs`; see meta.json")
    if kind is None:
        digraph_part(ctx)

    def guards(stats, summary):
        if stats.get("ok", 0) < ctx.pick(300, 5000) or stats.get("conflicted", 0) < ctx.pick(30, 500):
            raise Inconclusive("vacuity: %s" % stats)
    stats, summary = conf.run_conf(ctx, replay, "lalr", "ConfLALR.tla", "ConfLALR_C03.cfg", guards)
    ctx.cov["rule"] = ("per accepted grammar: every reduce point (state, rule) of the recorded automaton, its recorded look-ahead set "
                       "compared with the LR(1)-merge definition (itself cross-checked against DeRemer-Pennello per grammar); "
                       "warning presence compared with existence of a default-resolved cell; non-trivial = accepted grammars")
    ctx.cov["distinct_nontrivial"] = stats.get("ok", 0)
    ctx.cov["reduce_points_compared"] = stats.get("redpoints", 0)
    ctx.cov["grammars_with_conflicts"] = stats.get("conflicted", 0)
    return ctx.finish("model_checking")
