"""C04: conflicts resolved by precedence/associativity, else yacc defaults (table level)."""
from vlib import Inconclusive
import conf


def run(ctx, replay):
    def guards(stats, summary):
        if stats.get("judged04", 0) < ctx.pick(200, 3000):
            raise Inconclusive("too few two-candidate cells judged: %s" % stats)
    stats, summary = conf.run_conf(ctx, replay, "lalr", "ConfLALR.tla", "ConfLALR_C04.cfg", guards)
    ctx.cov["rule"] = ("every cell of every recorded dense table whose candidate set (from the implementation's own look-aheads) has "
                       "exactly two members and is not a don't-care; non-trivial = such cells")
    ctx.cov["distinct_nontrivial"] = stats.get("judged04", 0)
    return ctx.finish("model_checking")
