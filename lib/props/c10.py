"""C10: the grammar file is read faithfully, whatever its layout.
Layout.tla defines the explored layout space per file specification (uniform layouts, every single-gap deviation x
every kind of trivia, seeded pseudo-random vectors) and writes it out; the harness renders every (specification, layout)
and lets the real front end read it in-process; ConfFile.tla compares the projected result with the specification."""
import glob
import json
import os
import shutil

from vlib import Inconclusive, add_tlc_cov, log, require_clean, run_tlc, run_tlc_shards, stage_spec


def lexer_conformance(ctx):
    """The real lexer's token stream (hook VerifLex) vs the character-level model Lexer.tla."""
    import conf
    out = ctx.sub("lex")
    r = ctx.vh(["lexobs", "-out", out, "-seed", ctx.seed, "-shards", 16, "-ntexts", ctx.pick(3000, 160000), "-prefixes", ctx.pick(600, 20000),
                "-corpus", conf.CORPUS, "-nrand", ctx.pick(30, 200), "-nexpr", ctx.pick(5, 30)])
    log(r.stdout.strip().splitlines()[-1])
    shards = sorted(glob.glob(os.path.join(out, "lex-*.json")))
    results = run_tlc_shards(ctx, "ConfLexer.tla", "ConfLexer.cfg", shards, timeout=ctx.pick(600, 3000), extra=["-continue"])
    require_clean(results)
    add_tlc_cov(ctx, results, "real lexer token streams vs the character-level model (Lexer.tla / ConfLexer.tla)")
    ntexts = 0
    seen = 0
    for sf, res in results:
        obs = json.load(open(sf))
        ntexts += len(obs)
        for name, vars_, txt in res.violations:
            if seen >= 5:
                break
            seen += 1
            o = obs[int(vars_["m"]) - 1]
            text = "".join(o["text"])
            key = "lexer:%r" % text
            d = ctx.replay_dir(key)
            open(os.path.join(d, "input.y"), "w").write(text)
            json.dump({"property": "C10", "kind": "lexer", "obs": o}, open(os.path.join(d, "meta.json"), "w"), indent=1)
            ctx.violation(key, d, "the lexer's tokens for %r differ from the character-level model Lexer.tla: real %s" % (
                text, [(t["kind"], t["val"]) for t in o["toks"]][:12]))
    ctx.cov["lexer_texts"] = ntexts
    ctx.cov["evaluations"] += ntexts


def parser_conformance(ctx, single=None):
    """The real grammar-file parser's syntax tree vs the token-level model FileParse.tla."""
    import conf
    out = ctx.sub("parse")
    r = ctx.vh(["parseobs", "-out", out, "-seed", ctx.seed, "-shards", 1, "-single", single]) if single else ctx.vh(["parseobs", "-out", out, "-seed", ctx.seed, "-shards", 16, "-ntexts", ctx.pick(3000, 120000), "-nfile", ctx.pick(1200, 40000),
                "-klen", ctx.pick(2, 3), "-corpus", conf.CORPUS, "-nrand", ctx.pick(40, 300), "-nexpr", ctx.pick(10, 60), "-ntok", ctx.pick(60, 400)])
    log(r.stdout.strip().splitlines()[-1])
    shards = sorted(glob.glob(os.path.join(out, "parse-*.json")))
    results = run_tlc_shards(ctx, "ConfParse.tla", "ConfParse.cfg", shards, timeout=ctx.pick(600, 3000), extra=["-continue"])
    require_clean(results)
    add_tlc_cov(ctx, results, "real parser syntax trees vs the token-level model (FileParse.tla / ConfParse.tla)")
    n = trees = 0
    seen = 0
    for sf, res in results:
        obs = json.load(open(sf))
        n += len(obs)
        trees += sum(1 for o in obs if o["ast"]["ok"])
        for name, vars_, txt in res.violations:
            if seen >= 5:
                break
            seen += 1
            o = obs[int(vars_["m"]) - 1]
            key = "parser:%r" % o["text"]
            d = ctx.replay_dir(key)
            open(os.path.join(d, "input.y"), "w").write(o["text"])
            json.dump({"property": "C10", "kind": "parser", "obs": o}, open(os.path.join(d, "meta.json"), "w"), indent=1)
            ctx.violation(key, d, "the syntax tree built for %r differs from the model FileParse.tla: real %s" % (
                o["text"][:300], json.dumps(o["ast"])[:600]))
    ctx.cov["parser_texts"] = n
    ctx.cov["parser_trees"] = trees
    ctx.cov["evaluations"] += n
    if trees < ctx.pick(800, 8000) and not single:
        raise Inconclusive("too few texts that parse: %d" % trees)
    # from the syntax tree to the grammar's symbols and rules: the visitors vs SymTab.tla (same observations)
    results = run_tlc_shards(ctx, "ConfSymTab.tla", "ConfSymTab.cfg", shards, timeout=ctx.pick(600, 3000), extra=["-continue"])
    require_clean(results)
    add_tlc_cov(ctx, results, "symbols, token codes, tags, precedence and rule precedence built from real syntax trees vs the model (SymTab.tla / ConfSymTab.tla)")
    judged = okj = 0
    seen = 0
    for sf, res in results:
        obs = json.load(open(sf))
        judged += sum(1 for o in obs if o["ast"]["ok"] and o["sym"]["outcome"] in ("ok", "undef", "precundef"))
        okj += sum(1 for o in obs if o["ast"]["ok"] and o["sym"]["outcome"] == "ok")
        for name, vars_, txt in res.violations:
            if seen >= 5:
                break
            seen += 1
            o = obs[int(vars_["m"]) - 1]
            key = "symtab:%s:%r" % (name, o["text"])
            d = ctx.replay_dir(key)
            open(os.path.join(d, "input.y"), "w").write(o["text"])
            json.dump({"property": "C10", "kind": "symtab", "invariant": name, "obs": o}, open(os.path.join(d, "meta.json"), "w"), indent=1)
            ctx.violation(key, d, "the grammar built from %r differs from the model SymTab.tla (%s): real outcome %s, symbols %s, rules %s" % (
                o["text"][:300], name, o["sym"]["outcome"], json.dumps(o["sym"]["symbols"])[:500], json.dumps(o["sym"]["rules"])[:300]))
    ctx.cov["symtab_judged"] = judged
    ctx.cov["symtab_grammars_built"] = okj
    if okj < ctx.pick(300, 3000) and not single:
        raise Inconclusive("too few texts whose grammar was built: %d" % okj)


def run(ctx, replay):
    if replay:
        meta = json.load(open(os.path.join(replay, "meta.json")))
        if meta.get("kind") in ("parser", "symtab"):
            parser_conformance(ctx, single=os.path.join(replay, "input.y"))
            return ctx.finish("model_checking")
        raise Inconclusive("replay: `harness filerender -seed %s -n %s -spec %s -layout %s` reproduces the text" % (
            meta["seed"], meta["n"], meta["spec"], ",".join(map(str, meta["layout"]))))
    lexer_conformance(ctx)
    parser_conformance(ctx)
    out = ctx.sub("file")
    n = ctx.pick(16, 400)
    r = ctx.vh(["fileobs", "-phase", "specs", "-n", n, "-out", out, "-seed", ctx.seed])
    # pass 1: TLC generates the layouts
    d = ctx.sub("layout")
    stage_spec(d)
    shutil.copy(os.path.join(out, "specs.json"), d)
    with open(os.path.join(d, "Layout_run.cfg"), "w") as f:
        f.write("CONSTANTS Seed = %d\nR = %d\n" % (ctx.seed, ctx.pick(30, 200)))
    res = run_tlc(d, "Layout.tla", "Layout_run.cfg", timeout=ctx.pick(600, 3000), heap="6g")
    if not os.path.exists(os.path.join(d, "layouts.json")):
        raise Inconclusive("Layout.tla did not produce layouts: %s" % res.out[-800:])
    shutil.copy(os.path.join(d, "layouts.json"), out)
    # pass 2: render + read with the real front end
    r = ctx.vh(["fileobs", "-phase", "observe", "-n", n, "-out", out, "-seed", ctx.seed, "-shards", 16], timeout=3300)
    log(r.stdout.strip().splitlines()[-1])
    shards = sorted(glob.glob(os.path.join(out, "fobs-*.json")))
    results = run_tlc_shards(ctx, "ConfFile.tla", "ConfFile.cfg", shards, timeout=ctx.pick(900, 3000), extra=["-continue"],
                             extra_files={"specs.json": os.path.join(out, "specs.json")})
    require_clean(results)
    add_tlc_cov(ctx, results, "recorded readings vs the abstract file specification (ConfFile.tla)")
    specs = json.load(open(os.path.join(out, "specs.json")))
    total = 0
    seen = set()
    for sf, res2 in results:
        obs = json.load(open(sf))
        total += len(obs)
        for name, vars_, txt in res2.violations:
            o = obs[int(vars_["m"]) - 1]
            nz = [(i, k) for i, k in enumerate(o["layout"]) if k]
            sig = (name, nz[0][1] if len(nz) == 1 else -1, o["diag"][:30])
            if sig in seen:
                continue
            seen.add(sig)
            key = "%s:%s:%s" % (specs[o["spec"] - 1]["id"], name, ",".join(map(str, o["layout"])))
            dd = ctx.replay_dir(key)
            rr = ctx.vh(["filerender", "-seed", ctx.seed, "-n", n, "-spec", o["spec"], "-layout", ",".join(map(str, o["layout"]))])
            open(os.path.join(dd, "input.y"), "w").write(rr.stdout)
            json.dump({"property": "C10", "kind": "file", "seed": ctx.seed, "n": n, "spec": o["spec"], "layout": o["layout"],
                       "invariant": name, "want": specs[o["spec"] - 1]["want"], "got": o["got"], "diag": o["diag"]},
                      open(os.path.join(dd, "meta.json"), "w"), indent=1)
            ctx.violation(key, dd, "file spec %s under layout (non-plain gaps: %s): %s; outcome=%s %s" % (
                specs[o["spec"] - 1]["id"], nz[:6], name, o["outcome"], o["diag"][:200]))
    ctx.cov["evaluations"] += total
    ctx.cov["traces_validated_against_impl"] += total
    ctx.cov["distinct_nontrivial"] = total
    ctx.cov["file_specs"] = len(specs)
    ctx.cov["samples"] += [{"spec": specs[0]["id"], "ngaps": specs[0]["ngaps"], "want_rules": specs[0]["want"]["rules"][:3]}]
    ctx.cov["rule"] = ("case = (file specification, layout vector); layouts from Layout.tla: all uniform layouts, every single-gap deviation "
                       "x 9 kinds of trivia (spaces, tab, newline, blank line, block / line / empty / multi-line comment, nothing), and "
                       "pseudo-random vectors; '\\r' is not in the alphabet; non-trivial = renderings read")
    ctx.assumptions += ["'%}' is followed by a line break", "two words are never glued together without a separator",
                        "braces inside action strings are balanced (the lexer counts braces naively)"]
    if total < ctx.pick(5000, 50000):
        raise Inconclusive("too few renderings: %d" % total)
    return ctx.finish("model_checking")
