"""C15: parses are independent: re-init and separate contexts do not interfere.
Sessions.tla / Contexts.tla are model-checked (independence after init; isolation of contexts under every
interleaving); their scenario spaces are replayed on real generated parsers: histories of parses inside one process in
all five variants (incl. re-initialising a used context and one shared TypeScript module), two -o contexts under every
schedule of token fetches (blocking GetToken as scheduler gate), eight contexts in parallel under the race detector.
ConfSessions.tla compares every parse with the same parse done alone."""
import glob
import json
import os
import shutil

import runcamp
from vlib import Inconclusive, add_tlc_cov, log, require_clean, run_tlc, run_tlc_shards, stage_spec


def run(ctx, replay):
    for mod, cfg in (("Sessions.tla", "Sessions.cfg"), ("Contexts.tla", "Contexts.cfg")):
        d = ctx.sub("m-" + mod)
        stage_spec(d)
        res = run_tlc(d, mod, cfg, timeout=600, workers=4)
        if res.errors or res.violations:
            raise Inconclusive("%s does not hold as modelled: %s" % (mod, res.errors or res.violations[0][0]))
        add_tlc_cov(ctx, [(mod, res)], "%s (design level)" % mod)
    out = ctx.sub("sess")
    args = ["sessions", "-cli", ctx.cli(), "-node", runcamp.NODE22 if os.path.exists(runcamp.NODE22) else "", "-runts", runcamp.RUNTS,
            "-out", out, "-seed", ctx.seed]
    if replay:
        args += ["-cases", os.path.join(replay, "cases.json"), "-hlen", 3, "-ninputs", 4]
    else:
        args += ["-nexpr", ctx.pick(3, 20), "-nrand", ctx.pick(4, 30), "-ndp", ctx.pick(1, 6), "-nctx", ctx.pick(1, 6),
                 "-hlen", ctx.pick(3, 4), "-ninputs", ctx.pick(4, 5), "-maxsched", ctx.pick(120, 400)]
    r = ctx.vh(args, timeout=3400)
    log(r.stdout.strip().splitlines()[-1])
    obs = json.load(open(os.path.join(out, "sessions.json")))
    cases = {c["id"]: c for c in json.load(open(os.path.join(out, "cases.json")))}
    # shard for TLC
    sh = ctx.sub("shards")
    n = 16
    files = []
    for k in range(n):
        part = obs[k::n]
        if part:
            f = os.path.join(sh, "s-%d.json" % k)
            json.dump(part, open(f, "w"))
            files.append(f)
    results = run_tlc_shards(ctx, "ConfSessions.tla", "ConfSessions.cfg", files, timeout=ctx.pick(600, 3000), extra=["-continue"])
    require_clean(results)
    add_tlc_cov(ctx, results, "recorded parses vs the same parses alone (ConfSessions.tla)")
    seen = set()
    for sf, res in results:
        part = json.load(open(sf))
        for name, vars_, txt in res.violations:
            o = part[int(vars_["m"]) - 1]
            sig = (o["case"], o["kind"], o["variant"])
            if sig in seen:
                continue
            seen.add(sig)
            key = "%s:%s:%s:%s" % (o["case"], o["kind"], o["variant"], o["detail"][:60])
            d = ctx.replay_dir(key)
            json.dump([cases[o["case"]]], open(os.path.join(d, "cases.json"), "w"), indent=1)
            json.dump({"property": "C15", "kind": o["kind"], "obs": o}, open(os.path.join(d, "meta.json"), "w"), indent=1)
            diff = [(g, w) for g, w in zip(o["got"], o["want"]) if g != w][:2]
            ctx.violation(key, d, "grammar %s, variant %s, %s %s: a parse did not behave as it does alone\n got/want: %s" % (
                o["case"], o["variant"], o["kind"], o["detail"][:200], diff or (o["got"][:2], o["want"][:2])))
    kinds = {}
    for o in obs:
        kinds[o["kind"]] = kinds.get(o["kind"], 0) + 1
    ctx.cov["observations"] = kinds
    ctx.cov["evaluations"] += len(obs)
    ctx.cov["traces_validated_against_impl"] += len(obs)
    ctx.cov["distinct_nontrivial"] = len(obs)
    ctx.cov["samples"] += [{k: o[k] for k in ("kind", "variant", "detail", "got")} for o in obs[:2] + [x for x in obs if x["kind"] == "interleave"][:1]]
    ctx.cov["rule"] = ("history: all sequences of 2..L parses over accepted and rejected inputs in one process per variant (Go: ParserInit "
                       "between parses; -o: fresh context, and separately one context re-initialised; TypeScript: one shared module with "
                       "initialize()); interleave: two -o contexts, every schedule of token fetches (sampled above the cap); race: 8 "
                       "contexts in parallel, built with -race; non-trivial = observations")
    if not replay and (kinds.get("interleave", 0) < ctx.pick(5000, 50000) or kinds.get("history", 0) < ctx.pick(1000, 10000)):
        raise Inconclusive("too few observations: %s" % kinds)
    return ctx.finish("model_checking")
