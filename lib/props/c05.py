"""C05: table compression is lossless."""
from vlib import Inconclusive
import conf


def run(ctx, replay):
    def guards(stats, summary):
        if stats.get("packed", 0) < ctx.pick(300, 5000):
            raise Inconclusive("too few packed tables: %s" % stats)
    stats, summary = conf.run_conf(ctx, replay, "lalr", "ConfLALR.tla", "ConfLALR_C05.cfg", guards)
    ctx.cov["rule"] = "every (state, symbol) cell of every packed table, looked up as the generated Action() does; non-trivial = packed tables"
    ctx.cov["distinct_nontrivial"] = stats.get("packed", 0)
    return ctx.finish("model_checking")
