"""C11: token codes are unique and the lexer interface is consistent.
TokenCodes.tla states the numbering rules; ConfCodes.tla checks, for random declaration mixes, the codes recorded
in-process and -- behaviourally -- the constants and translate(c) reported by the BUILT generated programs
(go, go -u, go -o, typescript) for every integer in [-3, 1400] plus a few outliers."""
import glob
import json
import os

import runcamp
from vlib import Inconclusive, VERIF, add_tlc_cov, log, require_clean, run_tlc_shards


def run(ctx, replay):
    if replay:
        raise Inconclusive("replay: re-run `./check C11 quick` with VERIF_SEED from meta.json (cases are derived from the seed)")
    out = ctx.sub("codes")
    r = ctx.vh(["codeobs", "-cli", ctx.cli(), "-node", runcamp.NODE22, "-runcodes", os.path.join(VERIF, "harness", "runcodes.js"),
                "-out", out, "-seed", ctx.seed, "-n", ctx.pick(60, 2500), "-shards", 16], timeout=3300)
    log(r.stdout.strip().splitlines()[-1])
    shards = sorted(glob.glob(os.path.join(out, "codes-*.json")))
    results = run_tlc_shards(ctx, "ConfCodes.tla", "ConfCodes.cfg", shards, timeout=ctx.pick(600, 3000), extra=["-continue"])
    require_clean(results)
    add_tlc_cov(ctx, results, "recorded codes / constants / translate behaviour vs TokenCodes.tla")
    texts = json.load(open(os.path.join(out, "texts.json")))
    n = nterms = nprobes = 0
    seen = set()
    for sf, res in results:
        obs = json.load(open(sf))
        n += len(obs)
        for o in obs:
            nterms += len(o["terms"])
            nprobes += sum(len(v["probes"]) for v in o["variants"])
        byid = {}
        for name, vars_, txt in res.violations:
            o = obs[int(vars_["m"]) - 1]
            byid.setdefault(o["id"], (o, []))[1].append(name)
        for oid, (o, names) in byid.items():
            key = "%s:%s" % (oid, ",".join(sorted(set(names))))
            d = ctx.replay_dir(key)
            open(os.path.join(d, "grammar.y"), "w").write(texts[oid])
            json.dump({"property": "C11", "kind": "codes", "seed": ctx.seed, "obs": o}, open(os.path.join(d, "meta.json"), "w"), indent=1)
            notes = [v["variant"] + ": " + v["note"] for v in o["variants"] if not v["ok"]]
            ctx.violation(key, d, "declaration mix %s violates %s\nterms: %s\n%s" % (
                oid, ",".join(sorted(set(names))), [(t["name"], t["kind"], t["num"], t["code"]) for t in o["terms"]], "\n".join(notes)[:600]))
    ctx.cov["evaluations"] += n
    ctx.cov["traces_validated_against_impl"] += n
    ctx.cov["distinct_nontrivial"] = n
    ctx.cov["terminals"] = nterms
    ctx.cov["translate_hits_recorded"] = nprobes
    ctx.cov["samples"] += [{"id": o["id"], "terms": [(t["name"], t["kind"], t["num"], t["code"]) for t in o["terms"]]} for o in json.load(open(shards[0]))[:3]]
    ctx.cov["rule"] = ("declaration mixes: 0-4 character literals (ASCII and non-ASCII; declared by %token, on a precedence line, or only "
                       "used in rules), 1-6 named tokens (explicit numbers in several ranges, automatic, tagged/untagged, declared only on "
                       "a precedence line); each mix through 4 built variants; non-trivial = mixes")
    return ctx.finish("model_checking")
