"""C01: every accepted input has a valid derivation (table level + run level)."""
from vlib import Inconclusive
import driverconf
import runcamp


def run(ctx, replay):
    import json, os
    kind = json.load(open(os.path.join(replay, "meta.json")))["kind"] if replay else None
    st = {"inputs": 0}
    if kind in (None, "driver"):
        st = driverconf.run_driver(ctx, replay)
    if kind in (None, "run"):
        out, recs, rs = runcamp.run_level(ctx, replay, "RunTrace.tla", runcamp.INVS["C01"])
        if not replay and rs.get("verdict_accept", 0) < ctx.pick(500, 5000):
            raise Inconclusive("too few accepting runs: %s" % rs)
    ctx.cov["rule"] = ("table level: per recorded grammar every terminal string up to the bound is one behaviour of LRDriver.tla over the "
                       "implementation's dense table; run level: every run of every generated variant (go, go -u, go -o, go -o -u, "
                       "typescript) is replayed event by event by RunTrace.tla; non-trivial = accepting runs + table-level inputs")
    ctx.cov["distinct_nontrivial"] = st.get("inputs", 0) + ctx.cov.get("run_level", {}).get("verdict_accept", 0)
    return ctx.finish("model_checking")
