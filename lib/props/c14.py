"""C14: generation is deterministic.
Determinism.tla: two-run self-composition over the sites where iteration order can reach the output (model checked with
the code's set of map-ordered sites = {}); ConfDeterminism.tla: the output hashes of repeated REAL runs (separate
processes and repeated in-process generation) of every (grammar file, option set) group must coincide."""
import concurrent.futures
import hashlib
import json
import os
import shutil
import subprocess

import conf
from vlib import GOENV, Inconclusive, add_tlc_cov, log, require_clean, run_tlc, stage_spec

OPTS = {"go": [[], ["-u"], ["-o"], ["-o", "-u"]], "ts": [[]]}


def run(ctx, replay):
    d = ctx.sub("detmodel")
    stage_spec(d)
    res = run_tlc(d, "Determinism.tla", "Determinism.cfg", timeout=600, workers=4)
    if res.errors or res.violations:
        raise Inconclusive("Determinism.tla with MapSites = {} fails: %s" % (res.errors or res.violations[0][0]))
    add_tlc_cov(ctx, [("model", res)], "two-run product over order-sensitive sites (Determinism.tla)")
    out = ctx.sub("render")
    if replay:
        files = [(os.path.join(replay, f), "go" if f.endswith(".go.y") else "ts", f) for f in os.listdir(replay) if f.endswith(".y")]
    else:
        r = ctx.vh(["render", "-out", out, "-seed", ctx.seed, "-corpus", conf.CORPUS, "-nrand", ctx.pick(10, 300), "-nexpr", ctx.pick(4, 100),
                    "-nfeat", ctx.pick(6, 200), "-ndp", ctx.pick(6, 150), "-nctx", ctx.pick(160, 2500), "-nring", ctx.pick(8, 200), "-valued", 50])
        recs = json.load(open(os.path.join(out, "render.json")))
        files = [(os.path.join(out, rc["file"]), rc["lang"], rc["file"]) for rc in recs]
    cli = ctx.cli()
    vh = ctx.harness()
    nrep = ctx.pick(6, 12)
    jobs = []
    for path, lang, name in files:
        for opts in OPTS[lang]:
            jobs.append((path, lang, name, opts))

    # in-process generations: per file ONE process runs through all option sets in a mixed order
    # (plain, -o, -u, plain, -o -u, -o, ...) so that state kept between generations shows
    inproc = {}

    def one_inproc(f):
        path, lang, name = f
        wd = ctx.sub("g2-%s" % name)
        seq = "plain,o,u,plain,ou,o,u,ou" if lang == "go" else "plain,plain,plain"
        p = subprocess.run([vh, "gen2", "-file", path, "-lang", "go" if lang == "go" else "typescript", "-seq", seq, "-dir", wd],
                           stdout=subprocess.PIPE, stderr=subprocess.STDOUT, text=True, env=GOENV)
        res = {}
        for ln in p.stdout.splitlines():
            parts = ln.split(" ", 1)
            if len(parts) == 2:
                res.setdefault(parts[0], []).append(parts[1])
        shutil.rmtree(wd, ignore_errors=True)
        return name, res
    with concurrent.futures.ThreadPoolExecutor(max_workers=16) as ex:
        for name, res in ex.map(one_inproc, files):
            inproc[name] = res
    OPTKEY = {"": "plain", "-u": "u", "-o": "o", "-o -u": "ou"}

    def one(job):
        path, lang, name, opts = job
        wd = ctx.sub("w-%s-%s" % (name, "".join(opts)))
        hashes, exits = [], []
        for i in range(nrep):
            outp = os.path.join(wd, "o%d" % i)
            p = subprocess.run([cli, "generate"] + opts + ["go" if lang == "go" else "typescript", path, outp],
                               stdout=subprocess.PIPE, stderr=subprocess.STDOUT)
            exits.append(p.returncode)
            hashes.append(hashlib.sha256(open(outp, "rb").read()).hexdigest()[:16] if os.path.exists(outp) else "missing")
        ip = inproc.get(name, {}).get(OPTKEY[" ".join(opts)], [])
        shutil.rmtree(wd, ignore_errors=True)
        return {"file": name, "lang": lang, "opts": " ".join(opts), "hashes": hashes + ip, "exits": exits, "nproc": nrep, "ninproc": len(ip)}
    with concurrent.futures.ThreadPoolExecutor(max_workers=16) as ex:
        obs = list(ex.map(one, jobs))
    d2 = ctx.sub("tlc-det")
    stage_spec(d2)
    json.dump(obs, open(os.path.join(d2, "obs.json"), "w"))
    res2 = run_tlc(d2, "ConfDeterminism.tla", "ConfDeterminism.cfg", timeout=600, extra=["-continue"])
    require_clean([("det", res2)])
    add_tlc_cov(ctx, [("conf", res2)], "hashes of repeated real runs per group (ConfDeterminism.tla)")
    seen = set()
    for name, vars_, txt in res2.violations:
        o = obs[int(vars_["m"]) - 1]
        if (o["file"], name) in seen:
            continue
        seen.add((o["file"], name))
        key = "%s:%s:%s" % (o["file"], o["opts"], name)
        dd = ctx.replay_dir(key)
        src = [f for f in files if f[2] == o["file"]][0][0]
        shutil.copy(src, os.path.join(dd, o["file"]))
        json.dump({"property": "C14", "kind": "determinism", "obs": o}, open(os.path.join(dd, "meta.json"), "w"), indent=1)
        ctx.violation(key, dd, "yaccgo generate %s on %s: %d runs gave %d different outputs %s (exits %s)" % (
            o["opts"], o["file"], len(o["hashes"]), len(set(o["hashes"])), sorted(set(o["hashes"]))[:4], sorted(set(o["exits"]))))
    ctx.cov["evaluations"] += sum(len(o["hashes"]) for o in obs)
    ctx.cov["traces_validated_against_impl"] += len(obs)
    ctx.cov["distinct_nontrivial"] = len(obs)
    ctx.cov["samples"] += obs[:3]
    ctx.cov["rule"] = ("group = (grammar file, option set); %d CLI runs in separate processes + in-process generations (one process per file running through all option sets in a mixed order) per "
                       "group; grammars have several automatically numbered tokens, several goto targets per state and rows with "
                       "equally frequent entries; non-trivial = groups" % nrep)
    if not replay and len(obs) < ctx.pick(80, 600):
        raise Inconclusive("too few groups: %d" % len(obs))
    return ctx.finish("model_checking")
