"""C08: all backends and modes implement the same parser."""
from vlib import Inconclusive
import runcamp


def run(ctx, replay):
    out, recs, rs = runcamp.run_level(ctx, replay, "RunTrace.tla", runcamp.INVS["C08"])
    if not replay:
        per = [rs.get("runs_" + v, 0) for v in ("go", "go-u", "go-o", "go-o-u", "ts")]
        if min(per) < ctx.pick(1000, 10000):
            raise Inconclusive("some variant has too few runs: %s" % per)
    ctx.cov["rule"] = ("groups = (grammar, input); every variant's run (verdict, reduction sequence, printed value, tokens fetched) must "
                       "equal the group's first variant; grammars with unresolved conflicts included; non-trivial = groups")
    ctx.cov["distinct_nontrivial"] = rs.get("groups", 0)
    return ctx.finish("model_checking")
