"""C13: generation terminates on every input text.
(a) LexParse.tla: lexer || parser protocol at token-kind level, liveness under weak fairness for every kind sequence up
    to length N and every lexer ending (model checking);
(b) every scenario of that model is concretised to text and run through the real CLI (replay of the model's scenario space);
    the real lexer's token kinds are compared with the scenario's (drift report);
(c) every prefix of rendered well-formed files and random edits of them through `generate go`, `generate typescript`
    and `debug` under a deadline; an expiry is re-run twice alone before it counts;
(d) small scope, exhaustively: EVERY sequence of up to 4 (thorough: 5) fragments from an alphabet of 40 grammar-file
    fragments, once separated by blanks and once fused, through the real front end + table construction in-process
    (parser.ParseAndBuild) under a deadline; an expiry is confirmed twice in fresh processes."""
import json
import os
import shutil

import conf
from vlib import Inconclusive, add_tlc_cov, log, run_tlc, stage_spec


def run(ctx, replay):
    out = ctx.sub("term")
    if replay:
        f = [x for x in os.listdir(replay) if x.endswith(".y")][0]
        r = ctx.vh(["termcamp", "-cli", ctx.cli(), "-out", out, "-single", os.path.join(replay, f), "-deadline", "5s"])
    else:
        d = ctx.sub("lexparse")
        stage_spec(d)
        n = ctx.pick(3, 4)
        with open(os.path.join(d, "LexParse_run.cfg"), "w") as fcfg:
            fcfg.write("CONSTANTS N = %d\nFIXED = TRUE\nSPECIFICATION Spec\nPROPERTY Terminates\nCHECK_DEADLOCK FALSE\n" % n)
        res = run_tlc(d, "LexParse.tla", "LexParse_run.cfg", timeout=ctx.pick(600, 3000), heap="8g", workers=ctx.pick(8, 16))
        if res.errors:
            raise Inconclusive("LexParse.tla: %s" % res.errors)
        if res.violations:
            # the model (written as the code is) has a non-terminating behaviour: look for it in the real code below;
            # the verdict comes from the real runs only
            log("LexParse.tla: model has a non-terminating behaviour (see the replayed scenarios below)")
            ctx.cov["model_lasso"] = True
        add_tlc_cov(ctx, [("lexparse", res)], "lexer||parser protocol, all token-kind sequences up to length %d x 3 endings (LexParse.tla)" % n)
        r = ctx.vh(["termcamp", "-cli", ctx.cli(), "-out", out, "-seed", ctx.seed, "-corpus", conf.CORPUS,
                    "-nrand", ctx.pick(6, 40), "-nexpr", ctx.pick(2, 10), "-nfeat", ctx.pick(2, 10),
                    "-files", ctx.pick(10, 60), "-stride", ctx.pick(1, 1), "-edits", ctx.pick(2000, 50000),
                    "-klen", ctx.pick(2, 3), "-special", ctx.pick(40, 300), "-deadline", "5s"], timeout=3400)
    log(r.stdout.strip().splitlines()[-1])
    t = json.load(open(os.path.join(out, "term.json")))
    for a in t["anomalies"]:
        key = "hang:%s:%s" % (a["mode"], os.path.basename(a["file"]))
        d = ctx.replay_dir(key)
        shutil.copy(a["file"], d)
        json.dump({"property": "C13", "kind": "hang", "mode": a["mode"], "source": a["source"]}, open(os.path.join(d, "meta.json"), "w"))
        txt = open(a["file"], "rb").read()
        ctx.violation(key, d, "`yaccgo %s` %s on input (%d bytes, source: %s): %r" % (
            {"go": "generate go", "typescript": "generate typescript", "debug": "debug"}[a["mode"]], a["note"], len(txt), a["source"], txt[-120:]))
    ctx.cov["evaluations"] += t["runs"]
    ctx.cov["traces_validated_against_impl"] += t["inputs"]
    ctx.cov["distinct_nontrivial"] = t["inputs"]
    ctx.cov["termination"] = {k: t[k] for k in ("inputs", "runs", "exit", "max_millis", "sources", "lex_checked")}
    ctx.cov["lex_drift"] = t["lex_drift"]
    ctx.cov["samples"] += t["samples"]
    ctx.cov["rule"] = ("inputs = byte strings: every prefix of rendered grammar files (a few KB each, all five variants' files), random "
                       "1-3 place edits of them, systematic injection of 18 unusual characters (non-ASCII digits/letters/spaces, BOM, invalid UTF-8, NUL, CR) at token starts, and the concretised token-kind scenarios of LexParse.tla; each input is run through "
                       "`generate go`, `generate typescript` and `debug`; non-trivial = distinct inputs")
    if not replay:
        eo = ctx.sub("enum")
        k = ctx.pick(4, 5)
        r = ctx.vh(["enumterm", "-out", eo, "-len", k, "-workers", 16, "-deadline", "5s"], timeout=3400)
        log(r.stdout.strip().splitlines()[-1])
        e = json.load(open(os.path.join(eo, "enum.json")))
        for a in e["anomalies"]:
            key = "hang:inprocess:%d:%s" % (a["index"], a["tight"])
            d = ctx.replay_dir(key)
            shutil.copy(a["file"], os.path.join(d, "input.y"))
            json.dump({"property": "C13", "kind": "hang", "mode": "go", "source": "enumeration"}, open(os.path.join(d, "meta.json"), "w"))
            txt = open(a["file"], "rb").read()
            ctx.violation(key, d, "ParseAndBuild (the front end and table construction behind `generate` and `debug`) %s on input %r" % (a["note"], txt))
        ctx.cov["evaluations"] += e["inputs"]
        ctx.cov["enumeration"] = {kk: e[kk] for kk in ("k", "atoms", "sequences", "inputs", "outcomes", "max_micro", "unconfirmed_expiries")}
        ctx.cov["enumeration"]["child_crashes"] = e["crashes"][:5]
        if ctx.violations:
            pass    # hangs were found and confirmed: whatever else the enumeration could not finish does not matter
        elif e["unconfirmed_expiries"] > 5:
            raise Inconclusive("%d deadline expiries that did not reproduce alone (machine overloaded?)" % e["unconfirmed_expiries"])
        want = sum(e["atoms"] ** i for i in range(k + 1)) * 2
        if ctx.violations:
            pass
        elif e["stopped_early"] and not e["anomalies"]:
            raise Inconclusive("enumeration stopped early without a confirmed hang")
        if not ctx.violations and not e["stopped_early"] and e["inputs"] < want - 2 * (len(e["crashes"]) + len(e["anomalies"]) + e["unconfirmed_expiries"]) - 2:
            raise Inconclusive("enumeration incomplete: %d of %d inputs" % (e["inputs"], want))
    if not replay and not ctx.violations and t["inputs"] < ctx.pick(8000, 100000):
        raise Inconclusive("too few inputs: %d" % t["inputs"])
    return ctx.finish("model_checking")
