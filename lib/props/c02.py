"""C02: every sentence of an LALR(1) grammar is accepted (table level + run level)."""
from vlib import Inconclusive
import driverconf
import runcamp


def run(ctx, replay):
    import json, os
    kind = json.load(open(os.path.join(replay, "meta.json")))["kind"] if replay else None
    st = {"inputs_on_conflict_free": 0}
    if kind in (None, "driver"):
        st = driverconf.run_driver(ctx, replay)
    if kind in (None, "run"):
        out, recs, rs = runcamp.run_level(ctx, replay, "RunTrace.tla", runcamp.INVS["C02"])
        if not replay and rs.get("verdict_accept", 0) < ctx.pick(500, 5000):
            raise Inconclusive("too few accepting runs: %s" % rs)
    ctx.cov["rule"] = ("conflict-free (by the specification's LALR(1) definition) grammars only; reference membership = Earley recogniser in "
                       "TLA+ (cross-checked against the bounded language L_k); table level: all inputs up to the bound; run level: all "
                       "recorded runs of 5 variants; non-trivial = inputs of conflict-free grammars")
    ctx.cov["distinct_nontrivial"] = st.get("inputs_on_conflict_free", 0) + ctx.cov.get("run_level", {}).get("verdict_accept", 0)
    return ctx.finish("model_checking")
