package main

// The run campaign: for each case, every output variant is generated through
// the real CLI, built with the real toolchain (go build / node type stripping),
// run on a set of inputs, and the observed runs are written as ndjson traces
// for TLC (spec/RunTrace.tla).

import (
	"bytes"
	"context"
	"encoding/json"
	"flag"
	"fmt"
	"math/rand"
	"os"
	"os/exec"
	"path/filepath"
	"sort"
	"strconv"
	"strings"
	"sync"
	"time"
)

// ---------------------------------------------------------------------------
// inputs

// minHeights: for steering random derivations to terminate.
func minHeights(c *Case) map[string]int {
	h := map[string]int{}
	for _, t := range c.Terminals() {
		h[t] = 0
	}
	for changed := true; changed; {
		changed = false
		for _, r := range c.Rules {
			m := 0
			ok := true
			for _, s := range r.Rhs {
				v, has := h[s]
				if !has {
					ok = false
					break
				}
				if v > m {
					m = v
				}
			}
			if ok {
				if old, has := h[r.Lhs]; !has || m+1 < old {
					h[r.Lhs] = m + 1
					changed = true
				}
			}
		}
	}
	return h
}

func ruleHeight(h map[string]int, r Rule) int {
	m := 0
	for _, s := range r.Rhs {
		v, has := h[s]
		if !has {
			return 1 << 30
		}
		if v > m {
			m = v
		}
	}
	return m + 1
}

// randomSentence derives a random sentence (as terminal names); budget bounds the size.
func randomSentence(c *Case, r *rand.Rand, budget int) []string {
	h := minHeights(c)
	if _, ok := h[c.Start]; !ok {
		return nil
	}
	var out []string
	var expand func(sym string, depth int) bool
	steps := 0
	expand = func(sym string, depth int) bool {
		steps++
		if steps > 5000 {
			return false
		}
		if !c.isNT(sym) {
			out = append(out, sym)
			return true
		}
		var cands []Rule
		for _, ru := range c.Rules {
			if ru.Lhs == sym && ruleHeight(h, ru) < 1<<30 {
				cands = append(cands, ru)
			}
		}
		if len(cands) == 0 {
			return false
		}
		var ru Rule
		if depth > budget || len(out) > 4*budget {
			best := cands[0]
			for _, x := range cands {
				if ruleHeight(h, x) < ruleHeight(h, best) {
					best = x
				}
			}
			ru = best
		} else {
			ru = cands[r.Intn(len(cands))]
		}
		for _, s := range ru.Rhs {
			if !expand(s, depth+1) {
				return false
			}
		}
		return true
	}
	if !expand(c.Start, 0) {
		return nil
	}
	return out
}

// coverSentences: for every rule one sentence whose derivation uses that rule (a chain of rules from the
// start symbol down to the rule's left-hand side, everything else expanded by a random small derivation).
// Gives inputs that drive a parser through every reduction, hence through all states that matter.
func coverSentences(c *Case, r *rand.Rand) [][]string {
	var res [][]string
	for _, s := range coverSentencesByRule(c, r) {
		if s != nil {
			res = append(res, s)
		}
	}
	return res
}

// coverSentencesByRule: result[i] is a sentence whose derivation uses rule i (0-based), or nil.
func coverSentencesByRule(c *Case, r *rand.Rand) [][]string {
	h := minHeights(c)
	res := make([][]string, len(c.Rules))
	if _, ok := h[c.Start]; !ok {
		return res
	}
	// parent[A] = (rule index, position) by which A is first reached from the start symbol
	type par struct{ rule, pos int }
	parent := map[string]par{}
	seen := map[string]bool{c.Start: true}
	queue := []string{c.Start}
	for len(queue) > 0 {
		a := queue[0]
		queue = queue[1:]
		for ri, ru := range c.Rules {
			if ru.Lhs != a || ruleHeight(h, ru) >= 1<<30 {
				continue
			}
			for pi, s := range ru.Rhs {
				if c.isNT(s) && !seen[s] {
					seen[s] = true
					parent[s] = par{ri, pi}
					queue = append(queue, s)
				}
			}
		}
	}
	var small func(sym string, depth int) []string
	small = func(sym string, depth int) []string {
		if !c.isNT(sym) {
			return []string{sym}
		}
		var cands []Rule
		for _, ru := range c.Rules {
			if ru.Lhs == sym && ruleHeight(h, ru) < 1<<30 {
				cands = append(cands, ru)
			}
		}
		ru := cands[0]
		if depth < 2 && r.Intn(2) == 0 {
			ru = cands[r.Intn(len(cands))]
		} else {
			for _, x := range cands {
				if ruleHeight(h, x) < ruleHeight(h, ru) {
					ru = x
				}
			}
		}
		var out []string
		for _, s := range ru.Rhs {
			out = append(out, small(s, depth+1)...)
		}
		return out
	}
	for ri, ru := range c.Rules {
		if !seen[ru.Lhs] || ruleHeight(h, ru) >= 1<<30 {
			continue
		}
		// expand rule ri, then wrap it by the chain up to the start symbol
		var cur []string
		for _, s := range ru.Rhs {
			cur = append(cur, small(s, 1)...)
		}
		a := ru.Lhs
		for a != c.Start {
			p := parent[a]
			pr := c.Rules[p.rule]
			var out []string
			for pi, s := range pr.Rhs {
				if pi == p.pos {
					out = append(out, cur...)
				} else {
					out = append(out, small(s, 1)...)
				}
			}
			cur = out
			a = pr.Lhs
		}
		if len(cur) <= 80 {
			if cur == nil {
				cur = []string{}
			}
			res[ri] = cur
		}
	}
	return res
}

// accessStrings: for every state of the recorded automaton a terminal string that drives the parser into it
// (shortest symbol path through the goto graph from the start state, nonterminals replaced by one of their
// shortest terminal derivations).  Such prefixes are usually not sentences: they exercise what the parser does
// on arriving in each state (shift targets, error entries, premature accepts).
func accessStrings(c *Case, o *Obs) [][]string {
	if o == nil || len(o.Gotos) == 0 {
		return nil
	}
	h := minHeights(c)
	var expand func(sym string) []string
	expand = func(sym string) []string {
		if !c.isNT(sym) {
			return []string{sym}
		}
		var best *Rule
		for i := range c.Rules {
			ru := &c.Rules[i]
			if ru.Lhs == sym && ruleHeight(h, *ru) < 1<<30 && (best == nil || ruleHeight(h, *ru) < ruleHeight(h, *best)) {
				best = ru
			}
		}
		if best == nil {
			return nil
		}
		var out []string
		for _, s := range best.Rhs {
			out = append(out, expand(s)...)
		}
		return out
	}
	n := len(o.Gotos)
	path := make([][]string, n)
	seen := make([]bool, n)
	seen[0] = true
	queue := []int{0}
	for len(queue) > 0 {
		q := queue[0]
		queue = queue[1:]
		for _, gt := range o.Gotos[q] {
			t := gt.To - 1
			if t < 0 || t >= n || seen[t] {
				continue
			}
			seen[t] = true
			path[t] = append(append([]string{}, path[q]...), gt.Sym)
			queue = append(queue, t)
		}
	}
	var res [][]string
	for t := 1; t < n; t++ {
		if !seen[t] {
			continue
		}
		var out []string
		for _, s := range path[t] {
			out = append(out, expand(s)...)
		}
		if len(out) > 0 && len(out) <= 60 {
			res = append(res, out)
		}
	}
	return res
}

// GenInputs returns inputs as ordinal sequences (1-based index into
// c.Terminals(); 0 = a token code the grammar does not know).
func GenInputs(c *Case, r *rand.Rand, limit, kmax, nrandom int) [][]int {
	terms := c.Terminals()
	t := len(terms)
	ord := map[string]int{}
	for i, s := range terms {
		ord[s] = i + 1
	}
	seen := map[string]bool{}
	var res [][]int
	add := func(in []int) {
		k := fmt.Sprint(in)
		if !seen[k] {
			seen[k] = true
			res = append(res, append([]int{}, in...))
		}
	}
	// exhaustive up to the largest k with sum_{i<=k} t^i <= limit
	if t > 0 {
		k := 0
		total := 1
		pw := 1
		for k < kmax {
			pw *= t
			if total+pw > limit {
				break
			}
			total += pw
			k++
		}
		var rec func(cur []int)
		rec = func(cur []int) {
			add(cur)
			if len(cur) == k {
				return
			}
			for x := 1; x <= t; x++ {
				rec(append(cur, x))
			}
		}
		rec([]int{})
	} else {
		add([]int{})
	}
	// random sentences and one sentence per rule (coverage), their mutations, unknown tokens
	var pool [][]string
	if nrandom > 0 {
		pool = coverSentences(c, r)
	}
	for i := 0; i < nrandom+len(pool); i++ {
		var s []string
		if i < len(pool) {
			s = pool[i]
		} else {
			s = randomSentence(c, r, 2+r.Intn(6))
		}
		// the Earley reference in TLC is cubic in the input length on ambiguous grammars: keep sentences short
		// unless the grammar is a large one (those are judged by the linear-time table run)
		maxLen := 30
		if len(c.Rules) > 45 {
			maxLen = 80
		}
		if s == nil || len(s) > maxLen {
			continue
		}
		in := make([]int, len(s))
		for j, x := range s {
			in[j] = ord[x]
		}
		add(in)
		if t == 0 {
			continue
		}
		m := append([]int{}, in...)
		switch r.Intn(4) {
		case 0:
			if len(m) > 0 {
				p := r.Intn(len(m))
				m = append(m[:p], m[p+1:]...)
			}
		case 1:
			p := r.Intn(len(m) + 1)
			m = append(m[:p], append([]int{1 + r.Intn(t)}, m[p:]...)...)
		case 2:
			if len(m) > 0 {
				m[r.Intn(len(m))] = 1 + r.Intn(t)
			}
		case 3:
			p := r.Intn(len(m) + 1)
			m = append(m[:p], append([]int{0}, m[p:]...)...)
		}
		add(m)
	}
	return res
}

// ---------------------------------------------------------------------------
// campaign records

type RunRec struct {
	Case    int      `json:"case"` // 1-based index into cases
	Variant string   `json:"variant"`
	Input   []int    `json:"input"`
	Lines   []string `json:"lines"` // raw lines between BEGIN and END
}

type VariantRec struct {
	Variant  string `json:"variant"`
	GenExit  int    `json:"gen_exit"`
	GenOut   string `json:"gen_out"`
	Packed   bool   `json:"packed"` // generated file contains StatePackAction
	BuildOK  bool   `json:"build_ok"`
	BuildOut string `json:"build_out"`
	VetOut   string `json:"vet_out"`
	RunErr   string `json:"run_err"`
	NRuns    int    `json:"nruns"`
	Dir      string `json:"dir"`
	// -cells: what the generated look-up function Action() answers for every (state, symbol), asked in the built program
	Cells [][]int `json:"cells,omitempty"`
}

type CaseRec struct {
	ID       string       `json:"id"`
	Index    int          `json:"index"`
	NInputs  int          `json:"ninputs"`
	Variants []VariantRec `json:"variants"`
	Table    [][]int      `json:"table,omitempty"` // -cells: the dense table of the same grammar, recorded in-process
}

type campaignCfg struct {
	cells            bool
	cli, node, runts string
	out              string
	variants         []Variant
	limit, kmax      int
	nrandom          int
	trace            bool // also run Go variants with IsTrace on
	keep             bool
	vet              bool
}

func runCmd(dir string, timeout time.Duration, env []string, name string, args ...string) (string, int, bool) {
	ctx, cancel := context.WithTimeout(context.Background(), timeout)
	defer cancel()
	cmd := exec.CommandContext(ctx, name, args...)
	cmd.Dir = dir
	if env != nil {
		cmd.Env = append(os.Environ(), env...)
	}
	var buf bytes.Buffer
	cmd.Stdout = &buf
	cmd.Stderr = &buf
	err := cmd.Run()
	timedOut := ctx.Err() == context.DeadlineExceeded
	code := 0
	if err != nil {
		code = -1
		if ee, ok := err.(*exec.ExitError); ok {
			code = ee.ExitCode()
		}
	}
	return buf.String(), code, timedOut
}

func writeInputs(path string, inputs [][]int) {
	var sb strings.Builder
	for _, in := range inputs {
		ss := make([]string, len(in))
		for i, x := range in {
			ss[i] = strconv.Itoa(x)
		}
		sb.WriteString(strings.Join(ss, " ") + "\n")
	}
	os.WriteFile(path, []byte(sb.String()), 0644)
}

// splitRuns parses driver output into per-input line blocks.
func splitRuns(out string) ([][]string, string) {
	var runs [][]string
	var cur []string
	in := false
	var stray []string
	for _, ln := range strings.Split(out, "\n") {
		switch {
		case strings.HasPrefix(ln, "BEGIN "):
			in = true
			cur = []string{}
		case ln == "END" && in:
			runs = append(runs, cur)
			in = false
		case in:
			cur = append(cur, ln)
		case ln != "":
			stray = append(stray, ln)
		}
	}
	if in { // process died inside a run
		runs = append(runs, append(cur, "DIED"))
	}
	return runs, strings.Join(stray, "\n")
}

// genVariant: CLI generation + build for one (case, variant).
func genVariant(cfg *campaignCfg, c *Case, idx int, v Variant) VariantRec {
	dir := filepath.Join(cfg.out, fmt.Sprintf("c%d", idx), v.Name)
	os.MkdirAll(dir, 0755)
	rec := VariantRec{Variant: v.Name, Dir: dir}
	os.WriteFile(filepath.Join(dir, "g.y"), []byte(c.RenderVariant(v)), 0644)
	outName := "main.go"
	if v.Lang == "ts" {
		outName = "p.ts"
	}
	out, code, to := runCmd(dir, 60*time.Second, nil, cfg.cli, v.CLIArgs("g.y", outName)...)
	rec.GenExit = code
	if to {
		rec.GenExit = -9
	}
	if len(out) > 2000 {
		out = out[:2000]
	}
	rec.GenOut = out
	b, err := os.ReadFile(filepath.Join(dir, outName))
	if code != 0 || err != nil {
		return rec
	}
	rec.Packed = bytes.Contains(b, []byte("StatePackAction"))
	if v.Lang == "go" {
		os.WriteFile(filepath.Join(dir, "go.mod"), []byte("module p\n\ngo 1.18\n"), 0644)
		bo, bc, _ := runCmd(dir, 300*time.Second, []string{"GOFLAGS=-mod=mod", "GOPROXY=off", "GOTOOLCHAIN=local", "CGO_ENABLED=0"}, "go", "build", "-o", "p", ".")
		rec.BuildOK = bc == 0
		if len(bo) > 3000 {
			bo = bo[:3000]
		}
		rec.BuildOut = bo
		if cfg.vet && rec.BuildOK {
			vo, _, _ := runCmd(dir, 300*time.Second, []string{"GOFLAGS=-mod=mod", "GOPROXY=off", "GOTOOLCHAIN=local"}, "go", "vet", ".")
			if len(vo) > 2000 {
				vo = vo[:2000]
			}
			rec.VetOut = vo
		}
	} else {
		lo, lc, _ := runCmd(dir, 60*time.Second, []string{"NODE_NO_WARNINGS=1"}, cfg.node, cfg.runts, "--load-only", "p.ts")
		rec.BuildOK = lc == 0
		if len(lo) > 3000 {
			lo = lo[:3000]
		}
		rec.BuildOut = lo
	}
	return rec
}

func runVariant(cfg *campaignCfg, rec *VariantRec, v Variant, inputsPath string, trace bool) ([][]string, string) {
	var out string
	var code int
	var to bool
	if v.Lang == "go" {
		var env []string
		if trace {
			env = []string{"VH_TRACE=1"}
		}
		out, code, to = runCmd(rec.Dir, 120*time.Second, env, filepath.Join(rec.Dir, "p"), inputsPath)
	} else {
		out, code, to = runCmd(rec.Dir, 120*time.Second, []string{"NODE_NO_WARNINGS=1"}, cfg.node, cfg.runts, "p.ts", inputsPath)
	}
	runs, stray := splitRuns(out)
	errs := ""
	if to {
		errs = "timeout"
	} else if code != 0 {
		errs = fmt.Sprintf("exit %d: %s", code, stray)
	}
	return runs, errs
}

func cmdCampaign(args []string) {
	fs := flag.NewFlagSet("campaign", flag.ExitOnError)
	var p popFlags
	p.register(fs)
	cfg := &campaignCfg{}
	fs.StringVar(&cfg.cli, "cli", "", "yaccgo binary")
	fs.StringVar(&cfg.node, "node", "", "node >= 22 binary")
	fs.StringVar(&cfg.runts, "runts", "", "path to runts.js")
	fs.StringVar(&cfg.out, "out", ".", "output directory")
	fs.IntVar(&cfg.limit, "limit", 120, "exhaustive inputs per grammar")
	fs.IntVar(&cfg.kmax, "kmax", 5, "longest exhaustive input")
	fs.IntVar(&cfg.nrandom, "nrandom", 20, "random sentences (+ mutations) per grammar")
	fs.BoolVar(&cfg.trace, "trace", false, "also run Go variants with IsTrace")
	fs.BoolVar(&cfg.keep, "keep", false, "keep generated sources and binaries")
	fs.BoolVar(&cfg.vet, "vet", false, "also run go vet (recorded, not judged)")
	fs.BoolVar(&cfg.cells, "cells", false, "also ask every Go variant's Action() for every (state, symbol)")
	valuedPct := fs.Int("valued", 60, "percentage of cases given value-computing actions")
	variants := fs.String("variants", "go,go-u,go-o,go-o-u,ts", "variants")
	par := fs.Int("par", 16, "parallel builds")
	caseFile := fs.String("cases", "", "use these cases (JSON) instead of generating")
	inputsFile := fs.String("inputs-file", "", "use these inputs (one per line, ordinals) for every case instead of generating")
	shards := fs.Int("shards", 16, "trace shards")
	fs.Parse(args)
	for _, v := range AllVariants {
		for _, n := range strings.Split(*variants, ",") {
			if n == v.Name {
				cfg.variants = append(cfg.variants, v)
			}
		}
	}
	os.MkdirAll(cfg.out, 0755)
	var cases []*Case
	if *caseFile != "" {
		readJSON(*caseFile, &cases)
	} else {
		cases = p.cases()
		r := rand.New(rand.NewSource(p.seed*7919 + 13))
		for _, c := range cases {
			if c.Family == "probe" { // comes with its own actions; in the run campaign no action abandons the parse
				for i := range c.Rules {
					c.Rules[i].Act.Abort = false
				}
				continue
			}
			Valuate(c, r, r.Intn(100) < *valuedPct)
		}
	}
	// some grammars rely on the default start symbol: no %start line, the start nonterminal is called "start"
	if *caseFile == "" {
		for i, cs := range cases {
			if i%6 == 4 && cs.Family != "probe" && !cs.isNT("start") && !cs.isTerm("start") {
				renameSym(cs, cs.Start, "start")
				cs.NoStart = true
			}
		}
	}
	// some grammars number their first named token explicitly (the others keep automatic numbers; with several tokens on
	// one %token line the number must not leak to the names behind it)
	if *caseFile == "" {
		for i, cs := range cases {
			if i%5 == 2 && cs.Family != "probe" && cs.Family != "tokens" {
				for k := range cs.Tokens {
					if !cs.Tokens[k].Lit && cs.Tokens[k].Num == 0 {
						cs.Tokens[k].Num = 300 + i%7
						break
					}
				}
			}
		}
	}
	// some valued grammars number a tagged token by a LATER %token line that has no tag, with declarations of other
	// tags in between ("%token <ia> A" ... "%token <st> B" ... "%token A 312"): A keeps its own tag
	if *caseFile == "" {
		for i, cs := range cases {
			if i%7 != 3 || !cs.Valued || cs.Family == "probe" || cs.Family == "tokens" {
				continue
			}
			for k, t := range cs.Tokens {
				if t.Lit || t.Tag == "" || t.Num != 0 {
					continue
				}
				other := false
				for _, u := range cs.Tokens[k+1:] {
					if u.Tag != "" && u.Tag != t.Tag {
						other = true
					}
				}
				if other {
					cs.Tokens = append(cs.Tokens, Tok{Name: t.Name, Num: 310 + i%5})
					break
				}
			}
		}
	}
	// keep only cases yaccgo accepts (the campaign is about generated parsers)
	var kept []*Case
	var keptObs []*Obs
	for _, c := range cases {
		o := Observe(c)
		if o.Outcome == "ok" {
			kept = append(kept, c)
			keptObs = append(keptObs, o)
		}
	}
	cases = kept
	r := rand.New(rand.NewSource(p.seed*104729 + 7))
	inputs := make([][][]int, len(cases))
	for i, c := range cases {
		if *inputsFile != "" {
			b, err := os.ReadFile(*inputsFile)
			if err != nil {
				die("%v", err)
			}
			for _, ln := range strings.Split(strings.TrimRight(string(b), "\n"), "\n") {
				in := []int{}
				for _, w := range strings.Fields(ln) {
					k, _ := strconv.Atoi(w)
					in = append(in, k)
				}
				inputs[i] = append(inputs[i], in)
			}
		} else {
			inputs[i] = GenInputs(c, r, cfg.limit, cfg.kmax, cfg.nrandom)
			// one access string per state of the automaton (at most 300)
			ord := map[string]int{}
			for k, t := range c.Terminals() {
				ord[t] = k + 1
			}
			have := map[string]bool{}
			for _, in := range inputs[i] {
				have[fmt.Sprint(in)] = true
			}
			for k, s := range accessStrings(c, keptObs[i]) {
				if k >= 300 {
					break
				}
				in := make([]int, len(s))
				for j, x := range s {
					in[j] = ord[x]
				}
				if !have[fmt.Sprint(in)] {
					have[fmt.Sprint(in)] = true
					inputs[i] = append(inputs[i], in)
				}
			}
		}
		os.MkdirAll(filepath.Join(cfg.out, fmt.Sprintf("c%d", i+1)), 0755)
		writeInputs(filepath.Join(cfg.out, fmt.Sprintf("c%d", i+1), "inputs.txt"), inputs[i])
	}
	recs := make([]CaseRec, len(cases))
	type job struct{ ci, vi int }
	jobs := make(chan job)
	var wg sync.WaitGroup
	for i := range cases {
		recs[i] = CaseRec{ID: cases[i].ID, Index: i + 1, NInputs: len(inputs[i]), Variants: make([]VariantRec, len(cfg.variants))}
		if cfg.cells {
			recs[i].Table = keptObs[i].Table
		}
	}
	runsPlain := make([][][][]string, len(cases)) // [case][variant][run][lines]
	runsTrace := make([][][][]string, len(cases))
	for i := range cases {
		runsPlain[i] = make([][][]string, len(cfg.variants))
		runsTrace[i] = make([][][]string, len(cfg.variants))
	}
	for w := 0; w < *par; w++ {
		wg.Add(1)
		go func() {
			defer wg.Done()
			for j := range jobs {
				v := cfg.variants[j.vi]
				rec := genVariant(cfg, cases[j.ci], j.ci+1, v)
				if rec.GenExit == 0 && rec.BuildOK {
					ip := filepath.Join(cfg.out, fmt.Sprintf("c%d", j.ci+1), "inputs.txt")
					runs, errs := runVariant(cfg, &rec, v, ip, false)
					rec.RunErr = errs
					rec.NRuns = len(runs)
					runsPlain[j.ci][j.vi] = runs
					if cfg.cells && v.Lang == "go" {
						o := keptObs[j.ci]
						nsy := 0
						if len(o.Table) > 0 {
							nsy = len(o.Table[0])
						}
						co, _, _ := runCmd(rec.Dir, 120*time.Second, []string{fmt.Sprintf("VH_DUMPCELLS=%d,%d", len(o.Table), nsy)}, filepath.Join(rec.Dir, "p"), ip)
						for _, ln := range strings.Split(co, "\n") {
							if strings.HasPrefix(ln, "CELLS ") {
								row := []int{}
								for _, w := range strings.Fields(ln)[2:] {
									k, _ := strconv.Atoi(w)
									row = append(row, k)
								}
								rec.Cells = append(rec.Cells, row)
							}
						}
						if rec.Cells == nil {
							rec.Cells = [][]int{}
						}
					}
					if cfg.trace && v.Lang == "go" {
						truns, terrs := runVariant(cfg, &rec, v, ip, true)
						if terrs != "" {
							rec.RunErr += " trace:" + terrs
						}
						runsTrace[j.ci][j.vi] = truns
						// the same inputs once more, tracing switched on by the first action of each run (ConfLateTrace.tla)
						lo, _, lto := runCmd(rec.Dir, 120*time.Second, []string{"VH_LATETRACE=1"}, filepath.Join(rec.Dir, "p"), ip)
						if lruns, _ := splitRuns(lo); !lto && len(lruns) == len(truns) {
							lateMu.Lock()
							for ii := range truns {
								if len(truns[ii]) <= 400 && ii%3 == 0 {
									lateObs = append(lateObs, lateRec{Case: cases[j.ci].ID, Variant: v.Name, Run: ii, Full: classifyLines(truns[ii]), Late: classifyLines(lruns[ii])})
								}
							}
							lateMu.Unlock()
						}
					}
				}
				if !cfg.keep {
					os.Remove(filepath.Join(rec.Dir, "p"))
				}
				recs[j.ci].Variants[j.vi] = rec
			}
		}()
	}
	for ci := range cases {
		for vi := range cfg.variants {
			jobs <- job{ci, vi}
		}
	}
	close(jobs)
	wg.Wait()

	if cfg.trace {
		per := (len(lateObs) + 15) / 16
		for s := 0; per > 0 && s*per < len(lateObs); s++ {
			hi := (s + 1) * per
			if hi > len(lateObs) {
				hi = len(lateObs)
			}
			writeJSON(filepath.Join(cfg.out, fmt.Sprintf("late-%02d.json", s)), lateObs[s*per:hi])
		}
	}
	// TLA-side case descriptions
	tc := make([]tlaCase, len(cases))
	for i, c := range cases {
		tc[i] = c.TLACase()
	}
	// traces: sharded by case so that all variants of one input are in one shard, adjacent
	nsh := *shards
	if nsh > len(cases) {
		nsh = len(cases)
	}
	if nsh < 1 {
		nsh = 1
	}
	for s := 0; s < nsh; s++ {
		var plain, traced bytes.Buffer
		var shardCases []tlaCase
		local := 0
		nruns := 0
		for ci := s; ci < len(cases); ci += nsh {
			local++
			shardCases = append(shardCases, tc[ci])
			terms := cases[ci].Terminals()
			for ii, in := range inputs[ci] {
				first := true
				for vi, v := range cfg.variants {
					if runsPlain[ci][vi] == nil || ii >= len(runsPlain[ci][vi]) {
						continue
					}
					writeRunTrace(&plain, local, v.Name, in, terms, runsPlain[ci][vi][ii], first, false)
					first = false
					nruns++
				}
				for vi, v := range cfg.variants {
					if runsTrace[ci][vi] == nil || ii >= len(runsTrace[ci][vi]) {
						continue
					}
					writeRunTrace(&traced, local, v.Name, in, terms, runsTrace[ci][vi][ii], true, true)
				}
			}
		}
		writeJSON(filepath.Join(cfg.out, fmt.Sprintf("tcases-%d.json", s)), shardCases)
		os.WriteFile(filepath.Join(cfg.out, fmt.Sprintf("trace-%d.ndjson", s)), plain.Bytes(), 0644)
		if cfg.trace {
			os.WriteFile(filepath.Join(cfg.out, fmt.Sprintf("ttrace-%d.ndjson", s)), traced.Bytes(), 0644)
		}
	}
	writeJSON(filepath.Join(cfg.out, "cases.json"), cases)
	writeJSON(filepath.Join(cfg.out, "campaign.json"), recs)
	nb, nbok, nrun := 0, 0, 0
	for _, cr := range recs {
		for _, vr := range cr.Variants {
			nb++
			if vr.GenExit == 0 && vr.BuildOK {
				nbok++
			}
			nrun += vr.NRuns
		}
	}
	if !cfg.keep {
		for i := range cases {
			for _, v := range cfg.variants {
				d := filepath.Join(cfg.out, fmt.Sprintf("c%d", i+1), v.Name)
				os.Remove(filepath.Join(d, "p"))
			}
		}
	}
	fmt.Printf("campaign: %d cases, %d/%d variants generated and built, %d runs, %d shards\n", len(cases), nbok, nb, nrun, nsh)
}

// writeRunTrace appends one run as ndjson events.
func writeRunTrace(buf *bytes.Buffer, caseIdx int, variant string, in []int, terms []string, lines []string, first bool, traced bool) {
	name := func(k int) string {
		switch {
		case k == -1:
			return "$"
		case k >= 1 && k <= len(terms):
			return terms[k-1]
		}
		return "?"
	}
	input := make([]string, len(in))
	for i, k := range in {
		input[i] = name(k)
	}
	emit := func(v interface{}) {
		b, _ := json.Marshal(v)
		buf.Write(b)
		buf.WriteByte('\n')
	}
	emit(map[string]interface{}{"e": "reset", "case": caseIdx, "variant": variant, "input": input, "ords": append([]int{}, in...), "first": first})
	verdict, val, msg := "none", "", ""
	nfetch := 0
	nested := false
	for _, ln := range lines {
		if ln == "NESTBEGIN" {
			nested = true
			continue
		}
		if ln == "NESTEND" {
			nested = false
			continue
		}
		if nested {
			continue
		}
		f := strings.SplitN(ln, " ", 2)
		switch f[0] {
		case "T":
			parts := strings.Fields(ln)
			k, _ := strconv.Atoi(parts[2])
			nfetch++
			emit(map[string]interface{}{"e": "T", "tok": name(k), "ord": k})
		case "R":
			i, _ := strconv.Atoi(f[1])
			emit(map[string]interface{}{"e": "R", "rule": i + 1})
		case "ACCEPT":
			verdict = "accept"
			val = f[1]
			if strings.HasPrefix(val, "\"") {
				if u, err := strconv.Unquote(val); err == nil {
					val = u
				} else {
					var s string
					if json.Unmarshal([]byte(val), &s) == nil {
						val = s
					}
				}
			}
		case "SYNTAXERR":
			verdict = "syntaxerr"
			if len(f) > 1 {
				msg = f[1]
			}
		case "CRASH":
			verdict = "crash"
			if len(f) > 1 {
				msg = f[1]
			}
		case "NILRESULT", "NULLRESULT":
			verdict = "nil"
		case "DIVERGE":
			verdict = "diverge"
		case "DIED":
			verdict = "died"
		case "NESTRESULT":
			emit(map[string]interface{}{"e": "nest", "text": ln})
		case "ERRLOG":
			if len(f) > 1 {
				msg = f[1]
			}
		default:
			if traced {
				if ev := parseTraceLine(ln); ev != nil {
					emit(ev)
					continue
				}
			}
			if ln != "" {
				emit(map[string]interface{}{"e": "other", "text": ln})
			}
		}
	}
	// TypeScript: a null result together with the logged grammar error is the documented syntax-error outcome
	if verdict == "nil" && strings.Contains(strings.ToLower(msg), "error") && (strings.Contains(strings.ToLower(msg), "grammar") || strings.Contains(strings.ToLower(msg), "grammer")) {
		verdict = "syntaxerr"
	}
	emit(map[string]interface{}{"e": "end", "verdict": verdict, "val": val, "nfetch": nfetch, "msg": msg})
}

// parseTraceLine recognises the two line shapes printed with IsTrace.
func parseTraceLine(ln string) map[string]interface{} {
	if strings.HasPrefix(ln, "Shift ") {
		rest := ln[len("Shift "):]
		i := strings.LastIndex(rest, ", push state ")
		if i < 0 {
			return nil
		}
		n, err := strconv.Atoi(strings.TrimSpace(rest[i+len(", push state "):]))
		if err != nil {
			return nil
		}
		return map[string]interface{}{"e": "shift", "sym": strings.TrimSpace(rest[:i]), "state": n}
	}
	if strings.HasPrefix(ln, "look ahead ") {
		rest := ln[len("look ahead "):]
		i := strings.Index(rest, ", use Reduce:")
		j := strings.LastIndex(rest, ", go to state ")
		if i < 0 || j < 0 || j < i {
			return nil
		}
		n, err := strconv.Atoi(strings.TrimSpace(rest[j+len(", go to state "):]))
		if err != nil {
			return nil
		}
		text := rest[i+len(", use Reduce:") : j]
		return map[string]interface{}{"e": "reduce", "look": strings.TrimSpace(rest[:i]), "text": strings.Join(strings.Fields(text), " "), "state": n}
	}
	return nil
}

// ---------------------------------------------------------------------------
// TLA view of a case with values

type tlaTag struct {
	Name string `json:"name"`
	Tag  string `json:"tag"`
}

type tlaAct struct {
	Kind  string `json:"kind"`
	Args  []int  `json:"args"`
	Coefs []int  `json:"coefs"`
}

type tlaCase struct {
	ID     string     `json:"id"`
	G      tlaGrammar `json:"g"`
	Valued bool       `json:"valued"`
	Tags   []tlaTag   `json:"tags"`
	Acts   []tlaAct   `json:"acts"`  // aligned with g.rules (entry 1 = augmented rule, unused)
	Texts  []string   `json:"texts"` // rule text as the trace prints it, aligned with g.rules
}

func traceName(s string) string { // how the generated TraceTranslate names a symbol
	if isLitSym(s) {
		return s
	}
	return s
}

func (c *Case) TLACase() tlaCase {
	t := tlaCase{ID: c.ID, G: c.TLA(), Valued: c.Valued, Tags: []tlaTag{}}
	var names []string
	names = append(names, c.Terminals()...)
	names = append(names, c.NTs()...)
	sort.Strings(names)
	for _, n := range names {
		if tg := c.tagOf(n); tg != "" && c.Valued {
			t.Tags = append(t.Tags, tlaTag{n, tg})
		}
	}
	t.Acts = append(t.Acts, tlaAct{Kind: "", Args: []int{}, Coefs: []int{}})
	t.Texts = append(t.Texts, "")
	for _, r := range c.Rules {
		a := tlaAct{Kind: r.Act.Kind, Args: r.Act.Args, Coefs: r.Act.Coefs}
		if a.Args == nil {
			a.Args = []int{}
		}
		if a.Coefs == nil {
			a.Coefs = []int{}
		}
		if !c.Valued || c.tagOf(r.Lhs) == "" {
			a = tlaAct{Kind: "log", Args: []int{}, Coefs: []int{}}
		}
		t.Acts = append(t.Acts, a)
		t.Texts = append(t.Texts, strings.TrimSpace(r.Lhs+" -> "+strings.Join(r.Rhs, " ")))
	}
	return t
}

// Late tracing: one run with IsTrace on from the start and one in which the first action switches it on.
type lateLine struct {
	K string `json:"k"` // trace | R | other
	S string `json:"s"`
}

type lateRec struct {
	Case    string     `json:"case"`
	Variant string     `json:"variant"`
	Run     int        `json:"run"`
	Full    []lateLine `json:"full"`
	Late    []lateLine `json:"late"`
}

var (
	lateMu  sync.Mutex
	lateObs []lateRec
)

// classifyLines drops what nested parses print and tells trace lines, action log lines and the rest apart.
func classifyLines(lines []string) []lateLine {
	res := []lateLine{}
	nested := false
	for _, ln := range lines {
		switch {
		case ln == "NESTBEGIN":
			nested = true
		case ln == "NESTEND":
			nested = false
		case nested:
		case parseTraceLine(ln) != nil:
			res = append(res, lateLine{"trace", asciiName(ln)})
		case strings.HasPrefix(ln, "R "):
			res = append(res, lateLine{"R", ln})
		default:
			res = append(res, lateLine{"other", asciiName(ln)})
		}
	}
	return res
}
