package main

// codeobs: C11.  Random token-declaration mixes; the codes yaccgo assigns are
// observed in-process (Symbol.Value) and behaviourally: the generated Go and
// TypeScript files are built/loaded and asked for the value of every token
// constant and for translate(c) over a range of integers.

import (
	"flag"
	"fmt"
	"math/rand"
	"os"
	"path/filepath"
	"regexp"
	"strconv"
	"strings"
	"sync"
	"time"

	parser "github.com/acekingke/yaccgo/Parser"
)

type codeTerm struct {
	Name    string `json:"name"`    // abstract name ('c' for literals)
	Kind    string `json:"kind"`    // lit | explicit | auto
	Num     int    `json:"num"`     // explicit number / literal code / 0
	Code    int    `json:"code"`    // Symbol.Value observed in-process
	Present bool   `json:"present"` // yaccgo has a terminal of that name
	Named   bool   `json:"named"`   // has a constant in the generated file
}

type codeProbe struct {
	C   int    `json:"c"`
	Sym string `json:"sym"` // abstract name, "$" for end, "ERR" for the error symbol (0)
}

type codeVariant struct {
	Variant string      `json:"variant"`
	OK      bool        `json:"ok"`
	Note    string      `json:"note"`
	Consts  []codeTerm  `json:"consts"` // Name + Code as the generated program reports them
	Probes  []codeProbe `json:"probes"`
}

type codeObs struct {
	ID       string        `json:"id"`
	Outcome  string        `json:"outcome"`
	Terms    []codeTerm    `json:"terms"`
	Variants []codeVariant `json:"variants"`
	Lo       int           `json:"lo"`
	Hi       int           `json:"hi"`
	Text     string        `json:"-"`
}

// GenTokenMix: a small grammar whose interest is its token declarations.
func GenTokenMix(r *rand.Rand, id string) (*Case, map[string]codeTerm) {
	c := &Case{ID: id, Family: "tokens", Start: "S", Types: map[string]string{}}
	info := map[string]codeTerm{}
	usedNums := map[int]bool{}
	var all []string
	lits := []string{"+", "-", "*", "/", "(", ")", "=", "<", ">", "!", "~", "#", "a", "Z", "0", "9", "_", ";", ":", "é", "ß", "λ"}
	r.Shuffle(len(lits), func(i, j int) { lits[i], lits[j] = lits[j], lits[i] })
	nl := r.Intn(5)
	for i := 0; i < nl; i++ {
		s := "'" + lits[i] + "'"
		code := int([]rune(lits[i])[0])
		usedNums[code] = true
		info[s] = codeTerm{Name: s, Kind: "lit", Num: code}
		all = append(all, s)
		switch r.Intn(3) {
		case 0:
			c.Tokens = append(c.Tokens, Tok{Name: lits[i], Lit: true})
		case 1:
			c.Prec = append(c.Prec, PrecLine{Assoc: []string{"left", "right", "nonassoc"}[r.Intn(3)], Syms: []string{s}})
		}
	}
	nn := 1 + r.Intn(6)
	var late []Tok
	for i := 0; i < nn; i++ {
		name := fmt.Sprintf("TK%d", i)
		t := codeTerm{Name: name, Kind: "auto", Named: true}
		tok := Tok{Name: name}
		if r.Intn(3) == 0 {
			for {
				n := []int{1 + r.Intn(40), 256 + r.Intn(100), 1000 + r.Intn(300), 3 + r.Intn(3)}[r.Intn(4)]
				if !usedNums[n] {
					usedNums[n] = true
					t.Kind, t.Num = "explicit", n
					tok.Num = n
					break
				}
			}
		}
		if t.Kind == "auto" && r.Intn(4) == 0 {
			// introduced without a number first (bare %token or a precedence line), numbered by a later %token line,
			// with a number just above everything else so that automatic numbering could run into it
			base := 2
			for n := range usedNums {
				if n > base && n < 1200 {
					base = n
				}
			}
			num := base + 1 + r.Intn(nn+2)
			if !usedNums[num] {
				usedNums[num] = true
				t.Kind, t.Num = "explicit", num
				if r.Intn(2) == 0 {
					c.Tokens = append(c.Tokens, Tok{Name: name})
				} else {
					c.Prec = append(c.Prec, PrecLine{Assoc: "left", Syms: []string{name}})
				}
				late = append(late, Tok{Name: name, Num: num})
				info[name] = t
				all = append(all, name)
				continue
			}
		}
		if r.Intn(4) == 0 && t.Kind == "auto" {
			// declared only on a precedence line
			c.Prec = append(c.Prec, PrecLine{Assoc: []string{"left", "right", "nonassoc"}[r.Intn(3)], Syms: []string{name}})
		} else {
			switch r.Intn(4) {
			case 0:
				tok.Tag = "ia"
			case 1:
				c.Types[name] = "ib" // the tag comes from a %type line naming the token
			}
			c.Tokens = append(c.Tokens, tok)
		}
		info[name] = t
		all = append(all, name)
	}
	c.Tokens = append(c.Tokens, late...) // the numbering %token lines come last
	// rules: S -> each terminal once in a few alternatives
	r.Shuffle(len(all), func(i, j int) { all[i], all[j] = all[j], all[i] })
	for i := 0; i < len(all); i += 2 {
		rhs := []string{all[i]}
		if i+1 < len(all) {
			rhs = append(rhs, all[i+1])
		}
		c.Rules = append(c.Rules, Rule{Lhs: "S", Rhs: rhs})
	}
	for _, t := range c.Tokens {
		if t.Tag != "" {
			c.Valued = true
		}
	}
	if len(c.Types) > 0 {
		c.Valued = true
	}
	return c, info
}

var constRe = regexp.MustCompile(`(?m)^CONST (\S+) (-?\d+)$`)
var probeRe = regexp.MustCompile(`(?m)^X (-?\d+) (-?\d+) ?(.*)$`)

func cmdCodeObs(args []string) {
	fs := flag.NewFlagSet("codeobs", flag.ExitOnError)
	seed := fs.Int64("seed", 1, "seed")
	n := fs.Int("n", 40, "cases")
	cli := fs.String("cli", "", "yaccgo")
	node := fs.String("node", "", "node")
	runcodes := fs.String("runcodes", "", "runcodes.js")
	out := fs.String("out", ".", "out dir")
	shards := fs.Int("shards", 8, "shards")
	fs.Parse(args)
	os.MkdirAll(*out, 0755)
	r := rand.New(rand.NewSource(*seed))
	obs := make([]*codeObs, *n)
	var wg sync.WaitGroup
	sem := make(chan bool, 16)
	for i := 0; i < *n; i++ {
		c, info := GenTokenMix(r, fmt.Sprintf("tok-%d-%d", *seed, i))
		for k := range c.Rules {
			c.Rules[k].Act = Act{Kind: ""}
		}
		o := &codeObs{ID: c.ID, Lo: -3, Hi: 1400}
		obs[i] = o
		// in-process codes
		text := c.Render(RenderOpts{Prologue: "package main", Union: c.unionText("go")})
		o.Text = text
		resetFlags()
		w, outcome, _, _ := buildInProcess(text)
		o.Outcome = outcome
		byName := map[string]int{}
		if outcome == "ok" {
			root := w.VistorNode.(*parser.RootVistor)
			for _, sy := range root.LALR1.G.Symbols {
				if !sy.IsNonTerminator && sy.ID != 1 {
					byName[projName(int(sy.ID), sy.Name)] = sy.Value
				}
			}
		}
		for _, t := range c.Terminals() {
			ct := info[t]
			ct.Code, ct.Present = byName[t], false
			if _, ok := byName[t]; ok {
				ct.Present = true
			}
			o.Terms = append(o.Terms, ct)
		}
		if outcome != "ok" {
			o.Variants = []codeVariant{}
			continue
		}
		wg.Add(1)
		sem <- true
		go func(i int, c *Case, o *codeObs) {
			defer wg.Done()
			defer func() { <-sem }()
			for _, v := range []Variant{AllVariants[0], AllVariants[1], AllVariants[2], AllVariants[4]} {
				cv := codeVariant{Variant: v.Name, Consts: []codeTerm{}, Probes: []codeProbe{}}
				dir := filepath.Join(*out, fmt.Sprintf("t%d", i), v.Name)
				os.MkdirAll(dir, 0755)
				var named []string
				for _, t := range o.Terms {
					if t.Named {
						named = append(named, t.Name)
					}
				}
				var text string
				if v.Lang == "go" {
					var sb strings.Builder
					sb.WriteString("\nfunc GetToken(input string, val *ValType, pos *int) int { return -1 }\n\nfunc main() {\n")
					for _, nm := range named {
						sb.WriteString(fmt.Sprintf("\tfmt.Println(\"CONST\", %q, %s)\n", nm, nm))
					}
					sb.WriteString(fmt.Sprintf("\tfor c := %d; c <= %d; c++ {\n\t\tfmt.Println(\"X\", c, translate(c), TraceTranslate(translate(c)))\n\t}\n", o.Lo, o.Hi))
					sb.WriteString("\tfor _, c := range []int{233, 223, 955, 70000, -100} {\n\t\tfmt.Println(\"X\", c, translate(c), TraceTranslate(translate(c)))\n\t}\n}\n")
					text = c.Render(RenderOpts{Lang: "go", Prologue: "package main\n\nimport \"fmt\"", Union: c.unionText("go"), Epilogue: sb.String()})
				} else {
					epi := "\nfunction GetToken(input :string, model :{ValType :ValType, pos :number}) :number { return -1; }\n"
					epi += "function vhNamed() :string[] { return [" + strings.Join(quoteAll(named), ", ") + "]; }\n"
					text = c.Render(RenderOpts{Lang: "ts", Prologue: "// ts", Union: c.unionText("ts"), Epilogue: epi})
				}
				os.WriteFile(filepath.Join(dir, "g.y"), []byte(text), 0644)
				outName := "main.go"
				if v.Lang == "ts" {
					outName = "p.ts"
				}
				go1, code, _ := runCmd(dir, 60*time.Second, nil, *cli, v.CLIArgs("g.y", outName)...)
				if code != 0 {
					cv.Note = "generate failed: " + tail(go1, 300)
					o.Variants = append(o.Variants, cv)
					continue
				}
				var res string
				if v.Lang == "go" {
					os.WriteFile(filepath.Join(dir, "go.mod"), []byte("module p\n\ngo 1.18\n"), 0644)
					bo, bc, _ := runCmd(dir, 300*time.Second, []string{"GOFLAGS=-mod=mod", "GOPROXY=off", "GOTOOLCHAIN=local", "CGO_ENABLED=0"}, "go", "build", "-o", "p", ".")
					if bc != 0 {
						cv.Note = "build failed: " + tail(bo, 400)
						o.Variants = append(o.Variants, cv)
						continue
					}
					res, _, _ = runCmd(dir, 60*time.Second, nil, filepath.Join(dir, "p"))
					os.Remove(filepath.Join(dir, "p"))
				} else {
					var rc int
					res, rc, _ = runCmd(dir, 60*time.Second, []string{"NODE_NO_WARNINGS=1"}, *node, *runcodes, "p.ts", fmt.Sprint(o.Lo), fmt.Sprint(o.Hi))
					if rc != 0 {
						cv.Note = "load failed: " + tail(res, 400)
						o.Variants = append(o.Variants, cv)
						continue
					}
				}
				cv.OK = true
				for _, m := range constRe.FindAllStringSubmatch(res, -1) {
					k, _ := strconv.Atoi(m[2])
					cv.Consts = append(cv.Consts, codeTerm{Name: m[1], Code: k})
				}
				// TypeScript: translate gives symbol IDs; the table header comment lists the names in ID order
				var idNames []string
				if v.Lang == "ts" {
					b, _ := os.ReadFile(filepath.Join(dir, "p.ts"))
					if m := regexp.MustCompile(`/\*     (.*?)\*/`).FindSubmatch(b); m != nil {
						for _, nm := range strings.Split(strings.TrimRight(string(m[1]), "\t"), "\t") {
							idNames = append(idNames, nm)
						}
					}
				}
				for _, m := range probeRe.FindAllStringSubmatch(res, -1) {
					cc, _ := strconv.Atoi(m[1])
					id, _ := strconv.Atoi(m[2])
					sym := "ERR"
					switch {
					case id == 0:
						sym = "ERR"
					case id == 1:
						sym = "$"
					case v.Lang == "go":
						sym = strings.TrimSpace(m[3])
					case id < len(idNames):
						sym = projName(id, idNames[id])
					default:
						sym = fmt.Sprintf("?id%d", id)
					}
					if sym != "ERR" || cc == -2 || cc == 0 {
						cv.Probes = append(cv.Probes, codeProbe{C: cc, Sym: sym})
					}
				}
				cv.Note = fmt.Sprintf("%d probes", len(probeRe.FindAllStringSubmatch(res, -1)))
				o.Variants = append(o.Variants, cv)
			}
		}(i, c, o)
	}
	wg.Wait()
	// TLC's string handling is not reliable beyond ASCII: names are only compared, so escape them
	for _, o := range obs {
		for k := range o.Terms {
			o.Terms[k].Name = asciiName(o.Terms[k].Name)
		}
		for vi := range o.Variants {
			for k := range o.Variants[vi].Consts {
				o.Variants[vi].Consts[k].Name = asciiName(o.Variants[vi].Consts[k].Name)
			}
			for k := range o.Variants[vi].Probes {
				o.Variants[vi].Probes[k].Sym = asciiName(o.Variants[vi].Probes[k].Sym)
			}
		}
	}
	sh := make([][]*codeObs, *shards)
	for i, o := range obs {
		if o.Variants == nil {
			o.Variants = []codeVariant{}
		}
		if o.Terms == nil {
			o.Terms = []codeTerm{}
		}
		sh[i%*shards] = append(sh[i%*shards], o)
	}
	for s := range sh {
		if sh[s] == nil {
			sh[s] = []*codeObs{}
		}
		writeJSON(filepath.Join(*out, fmt.Sprintf("codes-%d.json", s)), sh[s])
	}
	texts := map[string]string{}
	for _, o := range obs {
		texts[o.ID] = o.Text
	}
	writeJSON(filepath.Join(*out, "texts.json"), texts)
	fmt.Printf("codeobs: %d cases\n", len(obs))
}

func quoteAll(ss []string) []string {
	res := make([]string, len(ss))
	for i, s := range ss {
		res[i] = strconv.Quote(s)
	}
	return res
}

func asciiName(s string) string {
	var sb strings.Builder
	for _, r := range s {
		if r < 128 {
			sb.WriteRune(r)
		} else {
			sb.WriteString(fmt.Sprintf("<U+%04X>", r))
		}
	}
	return sb.String()
}
