package main

// packobs: drive the real utils.PackTable over enumerated and random integer
// matrices and record input and output for TLC (spec/ConfPack.tla).

import (
	"flag"
	"fmt"
	"math/rand"
	"path/filepath"

	utils "github.com/acekingke/yaccgo/Utils"
)

type packObs struct {
	T     [][]int `json:"t"`
	Act   []int   `json:"act"`
	Off   []int   `json:"off"`
	Chk   []int   `json:"chk"`
	Panic string  `json:"panic"`
}

func packOne(t [][]int) (o packObs) {
	o.T = t
	o.Act, o.Off, o.Chk = []int{}, []int{}, []int{}
	defer func() {
		if r := recover(); r != nil {
			o.Panic = fmt.Sprint(r)
		}
	}()
	cp := make([][]int, len(t))
	for i := range t {
		cp[i] = append([]int{}, t[i]...)
	}
	a, d, c := utils.PackTable(cp)
	if a != nil {
		o.Act = a
	}
	if d != nil {
		o.Off = d
	}
	if c != nil {
		o.Chk = c
	}
	return
}

func cmdPackObs(args []string) {
	fs := flag.NewFlagSet("packobs", flag.ExitOnError)
	out := fs.String("out", ".", "output dir")
	shards := fs.Int("shards", 16, "shards")
	seed := fs.Int64("seed", 1, "seed")
	dims := fs.String("dims", "1x1,1x2,1x3,1x4,2x2,2x3,2x4,3x3", "exhaustive dimensions rowsxcols over {0..vals-1}")
	vals := fs.Int("vals", 3, "number of distinct cell values in exhaustive enumeration")
	nrand := fs.Int("nrand", 500, "random sparse matrices")
	fs.Parse(args)
	obs := make([][]packObs, *shards)
	n := 0
	add := func(t [][]int) {
		obs[n%*shards] = append(obs[n%*shards], packOne(t))
		n++
	}
	var dimList [][2]int
	var r0, c0 int
	for _, d := range splitComma(*dims) {
		fmt.Sscanf(d, "%dx%d", &r0, &c0)
		dimList = append(dimList, [2]int{r0, c0})
	}
	for _, d := range dimList {
		rows, cols := d[0], d[1]
		cells := rows * cols
		total := 1
		for i := 0; i < cells; i++ {
			total *= *vals
		}
		for code := 0; code < total; code++ {
			t := make([][]int, rows)
			x := code
			for i := 0; i < rows; i++ {
				t[i] = make([]int, cols)
				for j := 0; j < cols; j++ {
					t[i][j] = x % *vals
					x /= *vals
				}
			}
			add(t)
		}
	}
	nexh := n
	r := rand.New(rand.NewSource(*seed))
	for k := 0; k < *nrand; k++ {
		rows, cols := 1+r.Intn(40), 1+r.Intn(30)
		dens := []float64{0.05, 0.15, 0.3, 0.6, 0.9}[r.Intn(5)]
		t := make([][]int, rows)
		for i := range t {
			t[i] = make([]int, cols)
			for j := range t[i] {
				if r.Float64() < dens {
					t[i][j] = r.Intn(200) - 100
				}
			}
		}
		add(t)
	}
	for s := 0; s < *shards; s++ {
		if obs[s] == nil {
			obs[s] = []packObs{}
		}
		writeJSON(filepath.Join(*out, fmt.Sprintf("pack-%d.json", s)), obs[s])
	}
	writeJSON(filepath.Join(*out, "pack-summary.json"), map[string]int{"exhaustive": nexh, "random": n - nexh})
	fmt.Printf("packobs: %d exhaustive + %d random matrices\n", nexh, n-nexh)
}

func splitComma(s string) []string {
	var res []string
	cur := ""
	for _, ch := range s {
		if ch == ',' {
			if cur != "" {
				res = append(res, cur)
			}
			cur = ""
		} else {
			cur += string(ch)
		}
	}
	if cur != "" {
		res = append(res, cur)
	}
	return res
}
