package main

// In-process observation of one yaccgo generation: everything TLC needs to
// judge the construction (states, transitions, look-ahead sets, warnings,
// dense table, packed arrays), projected from yaccgo's run-dependent
// numbering to names / item sets.

import (
	"fmt"
	"io"
	"os"
	"regexp"
	"runtime"
	"strconv"
	"strings"
	"sync"
	"time"

	parser "github.com/acekingke/yaccgo/Parser"
	utils "github.com/acekingke/yaccgo/Utils"
)

type obsLA struct {
	Q  int      `json:"q"` // 1-based state
	R  int      `json:"r"` // 1-based rule (1 = augmented)
	LA []string `json:"la"`
}

type obsGoto struct {
	Sym string `json:"sym"`
	To  int    `json:"to"` // 1-based state
}

type obsWarn struct {
	State int    `json:"state"` // 1-based
	Sym   string `json:"sym"`
	T1    string `json:"t1"`
	T2    string `json:"t2"`
}

type obsPacked struct {
	Need bool  `json:"need"`
	Act  []int `json:"act"`
	Off  []int `json:"off"`
	Chk  []int `json:"chk"`
	ADef []int `json:"adef"`
	GDef []int `json:"gdef"`
}

type Obs struct {
	ID      string      `json:"id"`
	G       tlaGrammar  `json:"g"`
	Outcome string      `json:"outcome"` // ok | error | panic | crash | timeout
	Diag    string      `json:"diag"`
	States  [][][]int   `json:"states"` // states[i] = item set of state i (items [rule, dot], 1-based rule)
	Gotos   [][]obsGoto `json:"gotos"`
	LA      []obsLA     `json:"la"`
	Warn    []obsWarn   `json:"warn"`
	NWarn   int         `json:"nwarn"`
	Syms    []string    `json:"syms"`  // column -> abstract name
	IsNT    []bool      `json:"isnt"`  // column -> nonterminal?
	NTerm   int         `json:"nterm"` // len(VtSet)
	Table   [][]int     `json:"table"`
	ErrCode int         `json:"errcode"`
	AccCode int         `json:"acccode"`
	Packed  obsPacked   `json:"packed"`
	Extra   [][]string  `json:"extra"` // additional inputs (names) for the driver-level check: random sentences and mutations
	Text    string      `json:"-"`
	Stdout  string      `json:"-"`
}

var captureMu sync.Mutex

// capture runs f with os.Stdout redirected to a pipe and panics recovered.
func capture(f func()) (out string, perr interface{}, stack string) {
	captureMu.Lock()
	defer captureMu.Unlock()
	old := os.Stdout
	rd, wr, _ := os.Pipe()
	os.Stdout = wr
	done := make(chan string)
	go func() { b, _ := io.ReadAll(rd); done <- string(b) }()
	func() {
		defer func() {
			perr = recover()
			if perr != nil {
				buf := make([]byte, 4096)
				stack = string(buf[:runtime.Stack(buf, false)])
			}
		}()
		f()
	}()
	wr.Close()
	os.Stdout = old
	out = <-done
	rd.Close()
	return
}

var warnRe = regexp.MustCompile(`warning: has the conflic (\d+), sym (\d+), conflict Type (\w+), (\w+)  use default resolve`)

// projName maps a yaccgo symbol (by ID and internal name) to the abstract name.
func projName(id int, name string) string {
	switch {
	case id == 0:
		return AugStart
	case id == 1:
		return "$"
	case strings.HasPrefix(name, "$operator"):
		return "'" + name[len("$operator"):] + "'"
	}
	return name
}

func resetFlags() {
	utils.DebugFlags = false
	utils.PackFlags = true
	utils.HttpDebug = false
	utils.DebugPackTab = false
	utils.GenDotGraph = false
	utils.ObjectMode = false
}

// buildInProcess runs ParseAndBuild under capture with a deadline.
func buildInProcess(text string) (w *parser.Walker, outcome, diag, stdout string) {
	type res struct {
		w     *parser.Walker
		err   error
		out   string
		perr  interface{}
		stack string
	}
	ch := make(chan res, 1)
	go func() {
		var r res
		r.out, r.perr, r.stack = capture(func() { r.w, r.err = parser.ParseAndBuild(text) })
		ch <- r
	}()
	select {
	case r := <-ch:
		stdout = r.out
		switch {
		case r.perr != nil:
			if _, isRT := r.perr.(runtime.Error); isRT {
				return nil, "crash", fmt.Sprint(r.perr) + "\n" + r.stack, stdout
			}
			return nil, "panic", fmt.Sprint(r.perr), stdout
		case r.err != nil:
			return nil, "error", r.err.Error(), stdout
		}
		return r.w, "ok", "", stdout
	case <-time.After(20 * time.Second):
		return nil, "timeout", "ParseAndBuild did not return within 20s", ""
	}
}

// Observe generates in-process and projects.
func Observe(c *Case) *Obs {
	text := c.Render(RenderOpts{Prologue: "package main"})
	resetFlags()
	w, outcome, diag, stdout := buildInProcess(text)
	var o *Obs
	if outcome == "ok" {
		o = projectRun(c, w, stdout)
	} else {
		o = emptyObs()
	}
	o.ID, o.G, o.Text = c.ID, c.TLA(), text
	o.Outcome, o.Diag, o.Stdout = outcome, diag, stdout
	o.Extra = [][]string{}
	return o
}

func emptyObs() *Obs {
	o := &Obs{}
	o.States, o.Gotos, o.LA, o.Warn = [][][]int{}, [][]obsGoto{}, []obsLA{}, []obsWarn{}
	o.Syms, o.IsNT, o.Table = []string{}, []bool{}, [][]int{}
	o.Packed = obsPacked{Act: []int{}, Off: []int{}, Chk: []int{}, ADef: []int{}, GDef: []int{}}
	o.Extra = [][]string{}
	return o
}

// projectRun projects the data structures of one finished generation.
func projectRun(c *Case, w *parser.Walker, stdout string) *Obs {
	o := emptyObs()
	o.Outcome = "ok"
	o.Stdout = stdout
	root := w.VistorNode.(*parser.RootVistor)
	l := root.LALR1
	g := l.G
	for _, sy := range g.Symbols {
		o.Syms = append(o.Syms, projName(int(sy.ID), sy.Name))
		o.IsNT = append(o.IsNT, sy.IsNonTerminator)
	}
	o.NTerm = len(g.VtSet)
	for _, ic := range g.LR0.LR0Closure {
		items := [][]int{}
		for _, it := range ic.Items {
			items = append(items, []int{it.RuleIndex + 1, it.Dot})
		}
		o.States = append(o.States, items)
		gts := []obsGoto{}
		for _, gt := range ic.GoTo {
			gts = append(gts, obsGoto{Sym: projName(int(gt.Sym.ID), gt.Sym.Name), To: gt.ItemCl + 1})
		}
		o.Gotos = append(o.Gotos, gts)
	}
	for _, tr := range l.VerifTrans() {
		if tr.IsReduce {
			names := []string{}
			for _, s := range l.LookAheadSet[tr.Index] {
				names = append(names, o.Syms[s])
			}
			o.LA = append(o.LA, obsLA{Q: tr.Q + 1, R: tr.Rule + 1, LA: names})
		}
	}
	for _, m := range warnRe.FindAllStringSubmatch(stdout, -1) {
		st, _ := strconv.Atoi(m[1])
		sy, _ := strconv.Atoi(m[2])
		name := "?"
		if sy >= 0 && sy < len(o.Syms) {
			name = o.Syms[sy]
		}
		o.Warn = append(o.Warn, obsWarn{State: st + 1, Sym: name, T1: m[3], T2: m[4]})
	}
	o.NWarn = strings.Count(stdout, "warning:")
	for _, row := range l.GTable {
		o.Table = append(o.Table, append([]int{}, row...))
	}
	o.ErrCode, o.AccCode = l.GenErrorCode(), l.GenAcceptCode()
	nz := func(a []int) []int {
		if a == nil {
			return []int{}
		}
		return append([]int{}, a...)
	}
	o.Packed = obsPacked{Need: l.NeedPacked, Act: nz(l.ActionTable), Off: nz(l.OffsetTable), Chk: nz(l.CheckTable), ADef: nz(l.ActionDef), GDef: nz(l.GoToDef)}
	return o
}
