package main

// enumterm: C13, small-scope exhaustive part.  EVERY concatenation of up to K fragments from a fixed alphabet of
// grammar-file fragments (directive words, section marks, brackets, quotes, comment marks, identifiers, digits, white
// space, unusual characters) is given to the real front end + table construction (parser.ParseAndBuild) in-process
// under a deadline.  The parent hands out index blocks to child processes (a child that hangs or crashes is
// replaced); an input whose run does not return within the deadline is confirmed by two more runs alone before it
// is reported.

import (
	"bufio"
	"encoding/json"
	"flag"
	"fmt"
	"os"
	"os/exec"
	"path/filepath"
	"strconv"
	"strings"
	"sync"
	"time"

	parser "github.com/acekingke/yaccgo/Parser"
)

var enumAtoms = []string{
	"%token", "%left", "%nonassoc", "%type", "%start", "%union", "%prec", "%%", "%{", "%}", "%",
	"{", "}", "<", ">", ":", "|", ";", "'", "\"", "'c'", "\"s\"",
	"a", "B1", "7", " ", "\n", "/*", "*/", "//", "$$", "$1", "\\", "@",
	"é", "٣", "\x00", "\r", "\f", "\u00a0",
}

func enumCount(k int) int {
	n, pw := 0, 1
	for i := 0; i <= k; i++ {
		n += pw
		pw *= len(enumAtoms)
	}
	return n
}

// enumText maps an index in [0, enumCount(k)) to a fragment sequence (shorter sequences first).
func enumText(idx int) string {
	l, pw := 0, 1
	for idx >= pw {
		idx -= pw
		pw *= len(enumAtoms)
		l++
	}
	var sb strings.Builder
	parts := make([]string, l)
	for i := l - 1; i >= 0; i-- {
		parts[i] = enumAtoms[idx%len(enumAtoms)]
		idx /= len(enumAtoms)
	}
	for i, p := range parts {
		if i > 0 {
			sb.WriteString(" ") // fragments are separated so that each is lexed on its own ...
		}
		sb.WriteString(p)
	}
	return sb.String()
}

// enumTextTight is the same sequence without separators (fragments fuse into other lexemes).
func enumTextTight(idx int) string {
	return strings.ReplaceAll(enumText(idx), " ", "")
}

type enumBlockResult struct {
	From, To int
	Done     int            // inputs finished
	Outcomes map[string]int // ok / error / panic
	HangIdx  int            // -1: none
	HangTig  bool
	MaxMicro int64
}

// one input, in-process, under a deadline.  Returns outcome ("ok", "error", "panic") or "hang".
func enumRun(text string, deadline time.Duration) (string, time.Duration) {
	done := make(chan string, 1)
	t0 := time.Now()
	go func() {
		res := "ok"
		defer func() {
			if r := recover(); r != nil {
				res = "panic"
			}
			done <- res
		}()
		if _, err := parser.ParseAndBuild(text); err != nil {
			res = "error"
		}
	}()
	timer := time.NewTimer(deadline)
	defer timer.Stop()
	select {
	case r := <-done:
		return r, time.Since(t0)
	case <-timer.C:
		return "hang", time.Since(t0)
	}
}

func enumChild(from, to int, deadline time.Duration, resFile string, every int) {
	// yaccgo prints diagnostics and warnings on stdout: discard them
	devnull, _ := os.OpenFile(os.DevNull, os.O_WRONLY, 0)
	os.Stdout = devnull
	res := enumBlockResult{From: from, To: to, Outcomes: map[string]int{}, HangIdx: -1}
	flush := func() {
		b, _ := json.Marshal(res)
		os.WriteFile(resFile, b, 0644)
	}
	for idx := from; idx < to; idx++ {
		for _, tight := range []bool{false, true} {
			text := enumText(idx)
			if tight {
				text = enumTextTight(idx)
			}
			out, d := enumRun(text, deadline)
			if d.Microseconds() > res.MaxMicro {
				res.MaxMicro = d.Microseconds()
			}
			if out == "hang" {
				res.HangIdx, res.HangTig = idx, tight
				flush()
				os.Exit(3) // the spinning goroutine cannot be stopped: give the block back
			}
			res.Outcomes[out]++
		}
		res.Done++
		if res.Done%every == 0 {
			flush()
		}
	}
	flush()
	os.Exit(0)
}

type enumAnomaly struct {
	Index int    `json:"index"`
	Tight bool   `json:"tight"`
	File  string `json:"file"`
	Note  string `json:"note"`
}

type enumResult struct {
	K         int            `json:"k"`
	Atoms     int            `json:"atoms"`
	Sequences int            `json:"sequences"`
	Inputs    int            `json:"inputs"`
	Outcomes  map[string]int `json:"outcomes"`
	Anomalies []enumAnomaly  `json:"anomalies"`
	Crashes   []string       `json:"crashes"` // child processes that died (a Go runtime crash ends the run: not a hang)
	MaxMicro  int64          `json:"max_micro"`
	Unconf    int            `json:"unconfirmed_expiries"`
	Stopped   bool           `json:"stopped_early"` // three hangs were confirmed (or > 20 expiries did not reproduce): the rest was not run
}

func cmdEnumTerm(args []string) {
	fs := flag.NewFlagSet("enumterm", flag.ExitOnError)
	out := fs.String("out", ".", "output directory")
	k := fs.Int("len", 3, "longest fragment sequence")
	workers := fs.Int("workers", 16, "child processes")
	block := fs.Int("block", 4000, "indices per child process")
	deadline := fs.Duration("deadline", 5*time.Second, "deadline per input")
	child := fs.String("child", "", "internal: from:to:resultfile")
	every := fs.Int("flush", 2000, "internal: progress is saved every so many inputs")
	single := fs.String("single", "", "run one saved input file (replay)")
	fs.Parse(args)
	if *child != "" {
		f := strings.SplitN(*child, ":", 3)
		from, _ := strconv.Atoi(f[0])
		to, _ := strconv.Atoi(f[1])
		enumChild(from, to, *deadline, f[2], *every)
		return
	}
	os.MkdirAll(*out, 0755)
	res := enumResult{K: *k, Atoms: len(enumAtoms), Outcomes: map[string]int{}, Anomalies: []enumAnomaly{}, Crashes: []string{}}
	self, _ := os.Executable()
	// confirm: run one text alone in a fresh process, twice; both must expire
	confirm := func(text string) bool {
		f := filepath.Join(*out, "confirm.y")
		os.WriteFile(f, []byte(text), 0644)
		for i := 0; i < 2; i++ {
			c := exec.Command(self, "enumterm", "-single", f, "-deadline", (*deadline * 2).String())
			if err := c.Run(); err == nil {
				return false
			}
		}
		return true
	}
	if *single != "" {
		b, err := os.ReadFile(*single)
		if err != nil {
			die("%v", err)
		}
		devnull, _ := os.OpenFile(os.DevNull, os.O_WRONLY, 0)
		stdout := os.Stdout
		os.Stdout = devnull
		o, d := enumRun(string(b), *deadline)
		os.Stdout = stdout
		fmt.Printf("enumterm single: %s after %v\n", o, d)
		if o == "hang" {
			os.Exit(3)
		}
		os.Exit(0)
	}
	total := enumCount(*k)
	res.Sequences = total
	type job struct{ from, to int }
	jobs := make(chan job, 1024)
	var mu sync.Mutex
	var wg sync.WaitGroup
	for w := 0; w < *workers; w++ {
		wg.Add(1)
		go func(w int) {
			defer wg.Done()
			for j := range jobs {
				mu.Lock()
				stop := len(res.Anomalies) >= 3 || res.Unconf > 20
				mu.Unlock()
				if stop { // enough witnesses: drain the queue without running it
					continue
				}
				from := j.from
				flushEvery := 2000
				carefulUntil := -1
				for from < j.to {
					mu.Lock()
					stop := len(res.Anomalies) >= 3 || res.Unconf > 20
					mu.Unlock()
					if stop {
						break
					}
					if from >= carefulUntil {
						flushEvery = 2000
					}
					rf := filepath.Join(*out, fmt.Sprintf("block-%d-%d.json", w, from))
					c := exec.Command(self, "enumterm", "-child", fmt.Sprintf("%d:%d:%s", from, j.to, rf), "-deadline", deadline.String(), "-flush", strconv.Itoa(flushEvery))
					var errb strings.Builder
					c.Stderr = &errb
					c.Run()
					var br enumBlockResult
					b, err := os.ReadFile(rf)
					os.Remove(rf)
					if err != nil || json.Unmarshal(b, &br) != nil {
						br = enumBlockResult{From: from, To: j.to, HangIdx: -1}
					}
					mu.Lock()
					for o, n := range br.Outcomes {
						res.Outcomes[o] += n
						res.Inputs += n
					}
					if br.MaxMicro > res.MaxMicro {
						res.MaxMicro = br.MaxMicro
					}
					mu.Unlock()
					if br.HangIdx >= 0 {
						text := enumText(br.HangIdx)
						if br.HangTig {
							text = enumTextTight(br.HangIdx)
						}
						if confirm(text) {
							f := filepath.Join(*out, fmt.Sprintf("hang-%d-%v.y", br.HangIdx, br.HangTig))
							os.WriteFile(f, []byte(text), 0644)
							mu.Lock()
							res.Anomalies = append(res.Anomalies, enumAnomaly{Index: br.HangIdx, Tight: br.HangTig, File: f,
								Note: fmt.Sprintf("ParseAndBuild did not return within %v (confirmed twice alone with %v)", *deadline, *deadline*2)})
							mu.Unlock()
						} else {
							mu.Lock()
							res.Unconf++
							mu.Unlock()
						}
						from = br.HangIdx + 1
						continue
					}
					if br.From+br.Done < j.to {
						// the child died inside the block (a Go runtime crash in another goroutine ends the process: the run
						// terminated, so this is no hang).  Narrow down to the input, note it, go on behind it.
						at := br.From + br.Done
						if flushEvery > 1 {
							flushEvery, carefulUntil = 1, at+2000
							from = at
							continue
						}
						mu.Lock()
						if len(res.Crashes) < 50 {
							res.Crashes = append(res.Crashes, fmt.Sprintf("index %d %q: %s", at, enumText(at), lastLines(errb.String(), 2)))
						}
						mu.Unlock()
						from = at + 1
						continue
					}
					from = j.to
				}
			}
		}(w)
	}
	for from := 0; from < total; from += *block {
		to := from + *block
		if to > total {
			to = total
		}
		jobs <- job{from, to}
	}
	close(jobs)
	wg.Wait()
	res.Stopped = len(res.Anomalies) >= 3 || res.Unconf > 20
	writeJSON(filepath.Join(*out, "enum.json"), res)
	w := bufio.NewWriter(os.Stdout)
	fmt.Fprintf(w, "enumterm: %d fragment sequences up to length %d over %d fragments, %d inputs (spaced + fused), outcomes %v, %d hangs, %d child crashes, slowest %d us\n",
		res.Sequences, *k, len(enumAtoms), res.Inputs, res.Outcomes, len(res.Anomalies), len(res.Crashes), res.MaxMicro)
	w.Flush()
}

func lastLines(s string, n int) string {
	ls := strings.Split(strings.TrimSpace(s), "\n")
	if len(ls) > n {
		ls = ls[len(ls)-n:]
	}
	return strings.Join(ls, " | ")
}

func init() { extraCmds["enumterm"] = cmdEnumTerm }
