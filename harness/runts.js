// Runs a yaccgo-generated TypeScript parser (with the harness epilogue) under
// node >= 22: types are stripped with node's own stripTypeScriptTypes, the
// script is compiled once and executed in a FRESH vm context for every input,
// so no state survives from one input to the next.
//   node runts.js [--load-only] p.ts [inputs.txt] [--shared]
const fs = require('fs'), vm = require('vm'), mod = require('node:module');
const args = process.argv.slice(2);
const loadOnly = args[0] === '--load-only';
if (loadOnly) args.shift();
const shared = args.includes('--shared');
const file = args[0];
let script;
try {
  const src = fs.readFileSync(file, 'utf8');
  const js = mod.stripTypeScriptTypes(src);
  script = new vm.Script(js + "\n;globalThis.__run = vhRunOne;", { filename: file });
  if (loadOnly) {
    // also execute the top level once: a file that throws while loading is not well-formed
    const errs = [];
    const ctx = vm.createContext({ console: { log: () => {}, error: (...a) => errs.push(a.join(' ')) } });
    script.runInContext(ctx);
    if (typeof ctx.__run !== 'function' || typeof ctx.Parser !== 'function' && false) {
      console.log('LOADERROR no entry point');
      process.exit(3);
    }
    console.log('LOADED');
    process.exit(0);
  }
} catch (e) {
  console.log('LOADERROR ' + (e && e.constructor ? e.constructor.name : '') + ' ' + (e && e.message ? e.message : String(e)));
  process.exit(3);
}
const lines = fs.readFileSync(args[1], 'utf8').split('\n');
if (lines.length && lines[lines.length - 1] === '') lines.pop();
let sharedCtx = null;
const out = [];
lines.forEach((ln, n) => {
  const toks = ln.trim() === '' ? [] : ln.trim().split(/\s+/).map(Number);
  const errs = [];
  let ctx;
  if (shared && sharedCtx) { ctx = sharedCtx; ctx.__errs.length = 0; }
  else {
    ctx = vm.createContext({ console: { log: (...a) => errs.push('LOG ' + a.join(' ')), error: (...a) => errs.push(a.join(' ')) }, __errs: errs });
    try { script.runInContext(ctx); } catch (e) { out.push('BEGIN ' + n, 'CRASH load ' + e.message, 'END'); return; }
    if (shared) sharedCtx = ctx;
  }
  out.push('BEGIN ' + n);
  let res;
  try { res = ctx.__run(toks); } catch (e) { res = ['CRASH ' + e.message]; }
  for (const l of res) out.push(l);
  for (const e of ctx.__errs) out.push('ERRLOG ' + e);
  out.push('END');
});
process.stdout.write(out.join('\n') + '\n');
