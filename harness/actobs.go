package main

// actobs: C07 at the level of the generated TEXT.  Rules get arbitrary action
// texts ($$, $n with one or more digits, '$' before other characters, nested
// braces, comments, strings) - nothing is built, so the text need not be a
// program.  Every variant is generated with the CLI, the reduce function of
// the generated file is cut into its cases, and each case is recorded: rule
// number, symbol index given to $$, width of the Dollar window, number of
// popped entries and the substituted body.  ReduceCode.tla says what these
// must be; ConfReduceCode.tla compares.  Characters travel as code points.

import (
	"flag"
	"fmt"
	"math/rand"
	"os"
	"path/filepath"
	"regexp"
	"sort"
	"strconv"
	"strings"
	"sync"
	"time"
)

type actCase struct {
	Rule   int   `json:"rule"`
	SymIdx int   `json:"symidx"`
	Window int   `json:"window"`
	Pop    int   `json:"pop"`
	Body   []int `json:"body"`
	Cmt    []int `json:"cmt"` // the action as quoted in the comment in front of the body
}

type actVariant struct {
	Variant string    `json:"variant"`
	Lang    string    `json:"lang"` // go | ts
	Object  bool      `json:"object"`
	OK      bool      `json:"ok"`   // generated and cut into cases
	Note    string    `json:"note"` // why not
	Stack   string    `json:"stack"`
	Pos     string    `json:"pos"`
	Cases   []actCase `json:"cases"`
}

type actRule struct {
	Lhs   string  `json:"lhs"`
	LTag  []int   `json:"ltag"`
	RTags [][]int `json:"rtags"`
	N     int     `json:"n"`
	Act   []int   `json:"act"`
}

type actObs struct {
	ID       string       `json:"id"`
	Rules    []actRule    `json:"rules"`
	Variants []actVariant `json:"variants"`
}

func runes(s string) []int {
	res := []int{}
	for _, r := range s {
		res = append(res, int(r))
	}
	return res
}

// randomActionText: a text over an alphabet chosen to exercise the substitution, with every $n in range.
func randomActionText(r *rand.Rand, n int) string {
	var sb strings.Builder
	depth := 0
	k := 1 + r.Intn(14)
	for i := 0; i < k; i++ {
		switch r.Intn(16) {
		case 0, 1:
			sb.WriteString("$$")
		case 2, 3, 4:
			if n > 0 {
				sb.WriteString("$" + strconv.Itoa(1+r.Intn(n)))
			}
		case 5:
			if n > 0 { // leading zeros denote the same position
				sb.WriteString("$0" + strconv.Itoa(1+r.Intn(n)))
			}
		case 6:
			sb.WriteString([]string{"$x", "$ ", "$.", "$$$", "$_1", "$-1"}[r.Intn(6)])
		case 7:
			sb.WriteString("{")
			depth++
		case 8:
			if depth > 0 {
				sb.WriteString("}")
				depth--
			}
		case 9:
			sb.WriteString([]string{"/* $$ */", "// c\n", "\"$$\"", "\"%d %s\"", "'$'", "`$1x`"}[r.Intn(6)])
		case 10:
			sb.WriteString(strconv.Itoa(r.Intn(100)))
		case 11:
			sb.WriteString([]string{" ", "\t", "\n", "; "}[r.Intn(4)])
		case 12:
			sb.WriteString([]string{"dollarDolar", "Dollar[1]", "a.b", "x = y", "é", "*/ /*"}[r.Intn(6)])
		default:
			sb.WriteString([]string{"a", "b", "+", "(", ")", ".", "=", "%"}[r.Intn(8)])
		}
	}
	for ; depth > 0; depth-- {
		sb.WriteString("}")
	}
	s := sb.String()
	if n == 0 { // "`$1x`" and "$$$" followed by a digit could denote an out-of-range position
		s = strings.ReplaceAll(s, "`$1x`", "`x`")
	}
	s = regexp.MustCompile(`\$\$\$([0-9])`).ReplaceAllString(s, "$$$$ $1")
	// a '$' directly followed by digits that were not meant as a position: keep every position in range
	s = regexp.MustCompile(`\$([0-9]+)`).ReplaceAllStringFunc(s, func(m string) string {
		v, _ := strconv.Atoi(m[1:])
		if v >= 1 && v <= n {
			return m
		}
		return "$ " + m[1:]
	})
	return strings.TrimSpace(s)
}

var (
	reGoCase = regexp.MustCompile(`(?m)^[ \t]*case (\d+(?:, ?\d+)*): \n\tdollarDolar\.YySymIndex = (\d+)\n`)
	reTsCase = regexp.MustCompile(`(?m)^[ \t]*case (\d+(?:, ?\d+)*): \{\n\tdollarDolar\.YySymIndex = (\d+)\n`)
	reGoSeg  = regexp.MustCompile(`(?s)^\tDollar := (\S+)\[topIndex-(\d+) : (\S+)\]\n\t_ = Dollar\n\n/\*\n(.*?)\*/\n(.*)\n\t((?:c\.)?)PopStateSym\((\d+)\)\n`)
	reTsSeg  = regexp.MustCompile(`(?s)^\tlet Dollar = (\S+)\.slice\(topIndex-(\d+) , (\S+)\);\n\n/\*\n(.*?)\*/\n(.*)\n\tPopStateSym\((\d+)\);\n\tbreak;\n\}\n`)
)

// cutCases cuts the reduce function of a generated file into its cases.
func cutCases(text string, v Variant) ([]actCase, string, string, string) {
	start := strings.Index(text, "ReduceFunc(reduceIndex")
	if start < 0 {
		return nil, "", "", "no ReduceFunc"
	}
	body := text[start:]
	end := strings.Index(body, "\n\treturn dollarDolar")
	if end < 0 {
		return nil, "", "", "no end of ReduceFunc"
	}
	body = body[:end] + "\n"
	re, seg := reGoCase, reGoSeg
	if v.Lang == "ts" {
		re, seg = reTsCase, reTsSeg
	}
	locs := re.FindAllStringSubmatchIndex(body, -1)
	var res []actCase
	stack, pos := "", ""
	for i, l := range locs {
		var rulesHere []int // `case i, j:` stands for one case per listed rule
		for _, w := range strings.Split(body[l[2]:l[3]], ",") {
			k, _ := strconv.Atoi(strings.TrimSpace(w))
			rulesHere = append(rulesHere, k)
		}
		rule := rulesHere[0]
		sym, _ := strconv.Atoi(body[l[4]:l[5]])
		stop := len(body)
		if i+1 < len(locs) {
			stop = locs[i+1][0]
		}
		m := seg.FindStringSubmatch(body[l[1]:stop])
		if m == nil {
			return nil, "", "", fmt.Sprintf("case %d has an unexpected layout", rule)
		}
		popIdx := 7
		if v.Lang == "ts" {
			popIdx = 6
		} else if (m[6] == "c.") != v.Object {
			return nil, "", "", fmt.Sprintf("case %d pops through the wrong receiver", rule)
		}
		w, _ := strconv.Atoi(m[2])
		p, _ := strconv.Atoi(m[popIdx])
		if i > 0 && (m[1] != stack || m[3] != pos) {
			return nil, "", "", "cases use different stacks"
		}
		stack, pos = m[1], m[3]
		// comment: "\nLineNo:k\nlhs -> rhs \n action\n"
		cm := m[4]
		if j := strings.Index(cm, " \n "); j >= 0 {
			cm = cm[j+3:]
		}
		for _, k := range rulesHere {
			res = append(res, actCase{Rule: k, SymIdx: sym, Window: w, Pop: p,
				Body: runes(m[5]), Cmt: runes(strings.TrimSuffix(cm, "\n"))})
		}
	}
	sort.SliceStable(res, func(a, b int) bool { return res[a].Rule < res[b].Rule })
	return res, stack, pos, ""
}

func cmdActObs(args []string) {
	fs := flag.NewFlagSet("actobs", flag.ExitOnError)
	var pf popFlags
	pf.register(fs)
	cli := fs.String("cli", "", "yaccgo binary")
	out := fs.String("out", "", "output directory")
	shards := fs.Int("shards", 8, "number of obs files")
	fs.Parse(args)
	cases := pf.cases()
	os.MkdirAll(*out, 0755)
	obs := make([]*actObs, len(cases))
	texts := map[string]string{}
	var mu sync.Mutex
	var wg sync.WaitGroup
	sem := make(chan bool, 16)
	for ci, c := range cases {
		r := rand.New(rand.NewSource(pf.seed*7919 + int64(ci)))
		Valuate(c, r, true)
		c.NestRule = 0
		o := &actObs{ID: c.ID}
		lastAct := map[string]string{}
		for i := range c.Rules {
			// alternatives of one nonterminal with equally long right-hand sides often get the very same action text
			// (the substituted texts still differ where the symbols' tags differ)
			sameKey := fmt.Sprintf("%s/%d", c.Rules[i].Lhs, len(c.Rules[i].Rhs))
			if prev, ok := lastAct[sameKey]; ok && r.Intn(2) == 0 {
				c.Rules[i].RawAct = prev
			} else {
				c.Rules[i].RawAct = randomActionText(r, len(c.Rules[i].Rhs))
			}
			if c.Rules[i].RawAct == "" {
				c.Rules[i].RawAct = "x"
			}
			lastAct[sameKey] = c.Rules[i].RawAct
			ar := actRule{Lhs: c.Rules[i].Lhs, LTag: runes(c.tagOf(c.Rules[i].Lhs)), N: len(c.Rules[i].Rhs), Act: runes("{ " + c.Rules[i].RawAct + " }"), RTags: [][]int{}}
			for _, s := range c.Rules[i].Rhs {
				ar.RTags = append(ar.RTags, runes(c.tagOf(s)))
			}
			o.Rules = append(o.Rules, ar)
		}
		obs[ci] = o
		wg.Add(1)
		sem <- true
		go func(ci int, c *Case, o *actObs) {
			defer func() { <-sem; wg.Done() }()
			dir := filepath.Join(*out, fmt.Sprintf("a%d", ci))
			os.MkdirAll(dir, 0755)
			vs := make([]actVariant, len(AllVariants))
			for vi, v := range AllVariants {
				av := actVariant{Variant: v.Name, Lang: v.Lang, Object: v.Object, Cases: []actCase{}}
				y := c.RenderVariant(v)
				if vi == 0 {
					mu.Lock()
					texts[c.ID] = y
					mu.Unlock()
				}
				in := filepath.Join(dir, v.Name+".y")
				outName := filepath.Join(dir, v.Name+".out")
				os.WriteFile(in, []byte(y), 0644)
				msg, code, to := runCmd(dir, 60*time.Second, nil, *cli, v.CLIArgs(in, outName)...)
				b, err := os.ReadFile(outName)
				if code != 0 || to || err != nil {
					if len(msg) > 300 {
						msg = msg[:300]
					}
					av.Note = fmt.Sprintf("generation failed (exit %d): %s", code, msg)
				} else if cs, st, ps, why := cutCases(string(b), v); why != "" {
					av.Note = why
				} else {
					av.OK, av.Cases, av.Stack, av.Pos = true, cs, st, ps
				}
				vs[vi] = av
			}
			o.Variants = vs
			os.RemoveAll(dir)
		}(ci, c, o)
	}
	wg.Wait()
	per := (len(obs) + *shards - 1) / *shards
	if per == 0 {
		per = 1
	}
	n := 0
	for s := 0; s*per < len(obs); s++ {
		hi := (s + 1) * per
		if hi > len(obs) {
			hi = len(obs)
		}
		writeJSON(filepath.Join(*out, fmt.Sprintf("acts-%02d.json", s)), obs[s*per:hi])
		n++
	}
	writeJSON(filepath.Join(*out, "texts.json"), texts)
	fmt.Printf("actobs: %d grammars in %d files\n", len(obs), n)
}

func init() { extraCmds["actobs"] = cmdActObs }
