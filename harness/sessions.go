package main

// sessions: C15.  (1) histories of init/parse calls inside one process of every
// variant, compared with the same parses in fresh processes; (2) two contexts of
// a -o parser interleaved at token-fetch granularity under every schedule, the
// blocking GetToken acting as the scheduler's gate; (3) eight contexts running
// freely in parallel under the race detector.

import (
	"flag"
	"fmt"
	"math/rand"
	"os"
	"path/filepath"
	"strings"
	"sync"
	"time"
)

const goCtxPrologue = `package main

import (
	"bufio"
	"fmt"
	"os"
	"runtime"
	"strconv"
	"strings"
	"sync"
)`

// goCtxEpilogue: driver for the context experiments (object mode only).
func (c *Case) goCtxEpilogue() string {
	terms := c.Terminals()
	codes := []string{fmt.Sprint(unknownCode)}
	for _, t := range terms {
		codes = append(codes, codeExpr(t, "go"))
	}
	setVal := ""
	if c.Valued {
		setVal = "\t*val = ValType{ia: 100 + 7*p + k, ib: 500 + 11*p + k, st: \"t\" + strconv.Itoa(p) + \"k\" + strconv.Itoa(k)}\n"
	}
	show := "\"-\""
	if c.Valued {
		switch c.tagOf(c.Start) {
		case "ia":
			show = "strconv.Itoa(v.ia)"
		case "ib":
			show = "strconv.Itoa(v.ib)"
		case "st":
			show = "strconv.Quote(v.st)"
		}
	}
	return `
var vhCodes = []int{` + strings.Join(codes, ", ") + `}
var vhInputs [][]int

type vhCtx struct {
	toks   []int
	buf    []string
	red    int
	gated  bool
	done   bool
	resume chan bool
	yield  chan bool
}

var vhByCtx sync.Map  // *Context -> *vhCtx
var vhByName sync.Map // input string -> *vhCtx

func vhLogRc(c *Context, i int) {
	v, _ := vhByCtx.Load(c)
	x := v.(*vhCtx)
	x.red++
	if x.red > 600+40*len(x.toks) {
		x.buf = append(x.buf, "DIVERGE")
		panic("vh-diverge")
	}
	x.buf = append(x.buf, "R "+strconv.Itoa(i))
}

func GetToken(input string, val *ValType, pos *int) int {
	v, _ := vhByName.Load(input)
	x := v.(*vhCtx)
	if x.gated {
		x.yield <- true // at a fetch point: hand control back to the scheduler
		<-x.resume
	}
	p := *pos
	*pos = p + 1
	if p >= len(x.toks) {
		x.buf = append(x.buf, "T "+strconv.Itoa(p)+" -1")
		return -1
	}
	k := x.toks[p]
	x.buf = append(x.buf, "T "+strconv.Itoa(p)+" "+strconv.Itoa(k))
` + setVal + `	return vhCodes[k]
}

func vhShow(v *ValType) string {
	_ = strconv.Itoa
	return ` + show + `
}

func vhParse(x *vhCtx, name string) {
	defer func() {
		if r := recover(); r != nil {
			if _, ok := r.(runtime.Error); ok {
				x.buf = append(x.buf, fmt.Sprintf("CRASH %v", r))
			} else if s := fmt.Sprint(r); s == "vh-diverge" {
			} else if strings.HasPrefix(s, "Grammar error") {
				x.buf = append(x.buf, "SYNTAXERR")
			} else {
				x.buf = append(x.buf, "CRASH "+s)
			}
		}
		x.done = true
		if x.gated {
			x.yield <- true
		}
	}()
	if x.gated {
		<-x.resume
	}
	c := MakeParserContext()
	vhByCtx.Store(c, x)
	v := c.Parser(name)
	if v == nil {
		x.buf = append(x.buf, "NILRESULT")
		return
	}
	x.buf = append(x.buf, "ACCEPT "+vhShow(v))
}

func vhNew(name string, idx int, gated bool) *vhCtx {
	x := &vhCtx{toks: vhInputs[idx], gated: gated, resume: make(chan bool), yield: make(chan bool)}
	vhByName.Store(name, x)
	return x
}

func main() {
	f, err := os.Open(os.Args[1])
	if err != nil {
		panic(err)
	}
	sc := bufio.NewScanner(f)
	sc.Buffer(make([]byte, 1<<20), 1<<20)
	njob := 0
	for sc.Scan() {
		fs := strings.Fields(sc.Text())
		if len(fs) == 0 {
			continue
		}
		switch fs[0] {
		case "INPUT":
			in := []int{}
			for _, w := range fs[1:] {
				k, _ := strconv.Atoi(w)
				in = append(in, k)
			}
			vhInputs = append(vhInputs, in)
		case "SOLO":
			i, _ := strconv.Atoi(fs[1])
			x := vhNew("solo"+fs[1], i, false)
			vhParse(x, "solo"+fs[1])
			fmt.Printf("SOLO %d %s\n", i, strings.Join(x.buf, "|"))
		case "PAIR": // PAIR i j schedule(01...)
			i, _ := strconv.Atoi(fs[1])
			j, _ := strconv.Atoi(fs[2])
			sched := ""
			if len(fs) > 3 {
				sched = fs[3]
			}
			njob++
			xs := []*vhCtx{vhNew(fmt.Sprintf("j%da", njob), i, true), vhNew(fmt.Sprintf("j%db", njob), j, true)}
			go vhParse(xs[0], fmt.Sprintf("j%da", njob))
			go vhParse(xs[1], fmt.Sprintf("j%db", njob))
			turn := func(x *vhCtx) {
				if !x.done {
					x.resume <- true
					<-x.yield
				}
			}
			for _, ch := range sched {
				turn(xs[ch-'0'])
			}
			for !xs[0].done || !xs[1].done {
				turn(xs[0])
				turn(xs[1])
			}
			fmt.Printf("PAIR %d %d %s\nC0 %s\nC1 %s\n", i, j, sched, strings.Join(xs[0].buf, "|"), strings.Join(xs[1].buf, "|"))
		case "RACE": // RACE i1 i2 ... : all in parallel, ungated
			njob++
			var wg sync.WaitGroup
			var xs []*vhCtx
			for n, w := range fs[1:] {
				i, _ := strconv.Atoi(w)
				name := fmt.Sprintf("r%d_%d", njob, n)
				x := vhNew(name, i, false)
				xs = append(xs, x)
				wg.Add(1)
				go func(x *vhCtx, name string) {
					defer wg.Done()
					vhParse(x, name)
				}(x, name)
			}
			wg.Wait()
			fmt.Printf("RACE %s\n", strings.Join(fs[1:], " "))
			for n, x := range xs {
				fmt.Printf("C%d %s\n", n, strings.Join(x.buf, "|"))
			}
		}
	}
}
`
}

type sessObs struct {
	Case    string   `json:"case"`
	Kind    string   `json:"kind"` // history | reinit | shared | interleave | race
	Variant string   `json:"variant"`
	Detail  string   `json:"detail"`
	Got     []string `json:"got"`
	Want    []string `json:"want"`
}

func summarise(lines []string) string { return strings.Join(lines, "|") }

func cmdSessions(args []string) {
	fs := flag.NewFlagSet("sessions", flag.ExitOnError)
	var p popFlags
	p.register(fs)
	cli := fs.String("cli", "", "yaccgo binary")
	node := fs.String("node", "", "node >= 22")
	runts := fs.String("runts", "", "runts.js")
	out := fs.String("out", ".", "output directory")
	hlen := fs.Int("hlen", 3, "history length")
	ninp := fs.Int("ninputs", 4, "inputs per case")
	maxSched := fs.Int("maxsched", 200, "schedules per pair")
	race := fs.Bool("race", true, "build the context driver with -race")
	caseFile := fs.String("cases", "", "cases JSON (replay)")
	nsoak := fs.Int("nsoak", 2, "cases that get a soak history")
	soaklen := fs.Int("soaklen", 12000, "length of the soak history")
	fs.Parse(args)
	os.MkdirAll(*out, 0755)
	var cases []*Case
	if *caseFile != "" {
		readJSON(*caseFile, &cases)
	} else {
		cases = p.cases()
		r0 := rand.New(rand.NewSource(p.seed*7919 + 13))
		for _, c := range cases {
			Valuate(c, r0, true)
			if c.NestRule == 0 && r0.Intn(2) == 0 { // nesting matters here: force it on half of the cases
				for try := 0; try < 8 && c.NestRule == 0; try++ {
					Valuate(c, r0, true)
				}
			}
			// some actions abandon the parse after assigning $$; some rules rely on the zero default of $$
			for i := range c.Rules {
				if c.Rules[i].Act.Kind == "int" && r0.Intn(3) == 0 {
					c.Rules[i].Act.Abort = true
				} else if c.Rules[i].Act.Kind == "int" && r0.Intn(4) == 0 {
					c.Rules[i].Act = Act{Kind: "log"}
				}
			}
		}
	}
	if *caseFile == "" {
		rp := rand.New(rand.NewSource(p.seed*13 + 1))
		for i := 0; i < 2; i++ { // counter grammars with abandoning actions
			cases = append(cases, GenSessionProbe(rp, fmt.Sprintf("sprobe-%d-%d", p.seed, i)))
		}
		cases = append(cases, genNestProbe(rp, fmt.Sprintf("nprobe-%d", p.seed)))
		cases = append(cases, genDeepProbe(rp, fmt.Sprintf("deep-%d", p.seed)))
	}
	var kept []*Case
	for _, c := range cases {
		if o := Observe(c); o.Outcome == "ok" {
			kept = append(kept, c)
		}
	}
	cases = kept
	cfg := &campaignCfg{cli: *cli, node: *node, runts: *runts, out: *out, variants: AllVariants, keep: true}
	r := rand.New(rand.NewSource(p.seed*104729 + 11))
	var mu sync.Mutex
	var obs []sessObs
	add := func(o sessObs) { mu.Lock(); obs = append(obs, o); mu.Unlock() }
	var wg sync.WaitGroup
	sem := make(chan bool, 16)
	stats := map[string]int{}
	for ci, c := range cases {
		// inputs: some accepted, some rejected (prefer ones that fail late)
		inputs := sessionInputs(c, r, *ninp)
		if c.Family == "probe" {
			// a^n ; for n around the count at which the action gives up
			k := c.Rules[2].Act.AbortEq
			inputs = [][]int{}
			for _, n := range []int{k + 1, k - 1, 0, k} {
				in := []int{}
				for j := 0; j < n; j++ {
					in = append(in, 1)
				}
				inputs = append(inputs, append(in, 3))
			}
		}
		if c.Family == "deep" {
			// brackets nested to depths on both sides of every plausible growth step of a parse stack (64 .. 512 entries):
			// a fresh parser object meets the depth for the first time, a re-initialised one after a deeper or a shallower parse
			ord := map[string]int{}
			for i, t := range c.Terminals() {
				ord[t] = i + 1
			}
			inputs = [][]int{}
			for _, d := range []int{2, 300, 600, 130} {
				in := []int{}
				for j := 0; j < d; j++ {
					in = append(in, ord["'('"])
				}
				in = append(in, ord["n"])
				for j := 0; j < d; j++ {
					in = append(in, ord["')'"])
				}
				inputs = append(inputs, in)
			}
		}
		if len(inputs) < 2 {
			continue
		}
		wg.Add(1)
		sem <- true
		go func(ci int, c *Case, inputs [][]int) {
			defer wg.Done()
			defer func() { <-sem }()
			idx := ci + 1
			// ---- (1) histories, every variant
			for _, v := range AllVariants {
				if v.Lang == "ts" && *node == "" {
					continue
				}
				rec := genVariant(cfg, c, idx, v)
				if rec.GenExit != 0 || !rec.BuildOK {
					add(sessObs{Case: c.ID, Kind: "history", Variant: v.Name, Detail: "build failed: " + rec.BuildOut, Got: []string{"build-failed"}, Want: []string{"built"}})
					continue
				}
				runHist := func(h []int, env []string, shared bool) []string {
					ip := filepath.Join(rec.Dir, "h.txt")
					var hin [][]int
					for _, k := range h {
						hin = append(hin, inputs[k])
					}
					writeInputs(ip, hin)
					var o string
					if v.Lang == "go" {
						o, _, _ = runCmd(rec.Dir, 60*time.Second, env, filepath.Join(rec.Dir, "p"), ip)
					} else {
						a := []string{*runts, "p.ts", ip}
						if shared {
							a = append(a, "--shared")
						}
						o, _, _ = runCmd(rec.Dir, 60*time.Second, []string{"NODE_NO_WARNINGS=1"}, *node, a...)
					}
					runs, _ := splitRuns(o)
					var res []string
					for _, ru := range runs {
						res = append(res, summarise(ru))
					}
					return res
				}
				// reference: each input alone in a fresh process
				ref := make([]string, len(inputs))
				for k := range inputs {
					rr := runHist([]int{k}, nil, false)
					if len(rr) == 1 {
						ref[k] = rr[0]
					} else {
						ref[k] = "no-output"
					}
				}
				var hists [][]int
				var rec2 func(cur []int)
				rec2 = func(cur []int) {
					if len(cur) >= 2 {
						hists = append(hists, append([]int{}, cur...))
					}
					if len(cur) == *hlen {
						return
					}
					for k := range inputs {
						rec2(append(cur, k))
					}
				}
				rec2(nil)
				modes := []struct {
					kind   string
					env    []string
					shared bool
				}{{"history", nil, v.Lang == "ts"}}
				if v.Object {
					modes = append(modes, struct {
						kind   string
						env    []string
						shared bool
					}{"reinit", []string{"VH_REINIT=1"}, false})
				}
				for _, m := range modes {
					for _, h := range hists {
						got := runHist(h, m.env, m.shared)
						want := make([]string, len(h))
						for i, k := range h {
							want[i] = ref[k]
						}
						add(sessObs{Case: c.ID, Kind: m.kind, Variant: v.Name, Detail: fmt.Sprint(h), Got: got, Want: want})
					}
				}
				// soak: a very long history on one parser object (one re-initialised context with -o, the global parser,
				// the shared TypeScript module): whatever accumulates over thousands of init/parse rounds must not
				// change the result of the next parse
				if ci < *nsoak {
					var h []int
					for i := 0; i < *soaklen; i++ {
						h = append(h, i%len(inputs))
					}
					env := []string(nil)
					if v.Object {
						env = []string{"VH_REINIT=1"}
					}
					got := runHist(h, env, v.Lang == "ts")
					if len(got) == len(h) {
						tailN := 2 * len(inputs)
						var g2, w2 []string
						for i := len(h) - tailN; i < len(h); i++ {
							g2 = append(g2, got[i])
							w2 = append(w2, ref[h[i]])
						}
						add(sessObs{Case: c.ID, Kind: "soak", Variant: v.Name, Detail: fmt.Sprintf("last %d of %d parses", tailN, len(h)), Got: g2, Want: w2})
					} else {
						add(sessObs{Case: c.ID, Kind: "soak", Variant: v.Name, Detail: fmt.Sprintf("driver produced %d of %d runs", len(got), len(h)), Got: []string{"incomplete"}, Want: []string{"complete"}})
					}
				}
				os.Remove(filepath.Join(rec.Dir, "p"))
			}
			// ---- (2)+(3) contexts: object mode driver with gates
			for _, v := range []Variant{AllVariants[2], AllVariants[3]} {
				dir := filepath.Join(*out, fmt.Sprintf("c%d", idx), "ctx-"+v.Name)
				os.MkdirAll(dir, 0755)
				text := c.Render(RenderOpts{Lang: "goctx", Prologue: goCtxPrologue, Union: c.unionText("go"), Epilogue: c.goCtxEpilogue()})
				os.WriteFile(filepath.Join(dir, "g.y"), []byte(text), 0644)
				_, code, _ := runCmd(dir, 60*time.Second, nil, *cli, v.CLIArgs("g.y", "main.go")...)
				if code != 0 {
					add(sessObs{Case: c.ID, Kind: "interleave", Variant: v.Name, Detail: "generate failed", Got: []string{"gen-failed"}, Want: []string{"generated"}})
					continue
				}
				os.WriteFile(filepath.Join(dir, "go.mod"), []byte("module p\n\ngo 1.18\n"), 0644)
				bargs := []string{"build", "-o", "p"}
				env := []string{"GOFLAGS=-mod=mod", "GOPROXY=off", "GOTOOLCHAIN=local"}
				if *race {
					bargs = append(bargs, "-race")
					env = append(env, "CGO_ENABLED=1")
				} else {
					env = append(env, "CGO_ENABLED=0")
				}
				bo, bc, _ := runCmd(dir, 600*time.Second, env, "go", append(bargs, ".")...)
				if bc != 0 {
					add(sessObs{Case: c.ID, Kind: "interleave", Variant: v.Name, Detail: "build failed: " + bo, Got: []string{"build-failed"}, Want: []string{"built"}})
					continue
				}
				var job strings.Builder
				for _, in := range inputs {
					ss := make([]string, len(in))
					for i, x := range in {
						ss[i] = fmt.Sprint(x)
					}
					job.WriteString("INPUT " + strings.Join(ss, " ") + "\n")
				}
				for k := range inputs {
					job.WriteString(fmt.Sprintf("SOLO %d\n", k))
				}
				type pairJob struct {
					i, j  int
					sched string
				}
				var pjs []pairJob
				for i := range inputs {
					for j := range inputs {
						t0, t1 := len(inputs[i])+2, len(inputs[j])+2
						var scheds []string
						var gen func(cur string, a, b int)
						gen = func(cur string, a, b int) {
							if len(scheds) > 5000 {
								return
							}
							if a == 0 && b == 0 {
								scheds = append(scheds, cur)
								return
							}
							if a > 0 {
								gen(cur+"0", a-1, b)
							}
							if b > 0 {
								gen(cur+"1", a, b-1)
							}
						}
						gen("", t0, t1)
						if len(scheds) > *maxSched {
							r.Shuffle(len(scheds), func(x, y int) { scheds[x], scheds[y] = scheds[y], scheds[x] })
							scheds = scheds[:*maxSched]
						}
						for _, s := range scheds {
							pjs = append(pjs, pairJob{i, j, s})
						}
					}
				}
				for _, pj := range pjs {
					job.WriteString(fmt.Sprintf("PAIR %d %d %s\n", pj.i, pj.j, pj.sched))
				}
				nrace := 20
				var raceJobs [][]int
				for n := 0; n < nrace; n++ {
					var ids []int
					for k := 0; k < 8; k++ {
						ids = append(ids, r.Intn(len(inputs)))
					}
					raceJobs = append(raceJobs, ids)
					ss := make([]string, len(ids))
					for i, x := range ids {
						ss[i] = fmt.Sprint(x)
					}
					job.WriteString("RACE " + strings.Join(ss, " ") + "\n")
				}
				os.WriteFile(filepath.Join(dir, "job.txt"), []byte(job.String()), 0644)
				o, rc, to := runCmd(dir, 600*time.Second, []string{"GORACE=halt_on_error=0"}, filepath.Join(dir, "p"), "job.txt")
				solo := map[int]string{}
				lines := strings.Split(o, "\n")
				raceReports := strings.Count(o, "WARNING: DATA RACE")
				pi, ri := 0, 0
				for n := 0; n < len(lines); n++ {
					f := strings.SplitN(lines[n], " ", 3)
					switch f[0] {
					case "SOLO":
						var k int
						fmt.Sscanf(f[1], "%d", &k)
						if len(f) > 2 {
							solo[k] = f[2]
						}
					case "PAIR":
						if pi < len(pjs) && n+2 < len(lines) {
							pj := pjs[pi]
							pi++
							got := []string{strings.TrimPrefix(lines[n+1], "C0 "), strings.TrimPrefix(lines[n+2], "C1 ")}
							add(sessObs{Case: c.ID, Kind: "interleave", Variant: v.Name, Detail: fmt.Sprintf("%d %d %s", pj.i, pj.j, pj.sched), Got: got, Want: []string{solo[pj.i], solo[pj.j]}})
						}
					case "RACE":
						if ri < len(raceJobs) {
							ids := raceJobs[ri]
							ri++
							var got, want []string
							for k, id := range ids {
								if n+1+k < len(lines) {
									got = append(got, strings.TrimPrefix(lines[n+1+k], fmt.Sprintf("C%d ", k)))
								}
								want = append(want, solo[id])
							}
							add(sessObs{Case: c.ID, Kind: "race", Variant: v.Name, Detail: fmt.Sprint(ids), Got: got, Want: want})
						}
					}
				}
				if to || pi != len(pjs) || ri != len(raceJobs) {
					add(sessObs{Case: c.ID, Kind: "interleave", Variant: v.Name, Detail: fmt.Sprintf("driver stopped early (timeout=%v rc=%d): %d/%d pairs, %d/%d race jobs; tail: %s", to, rc, pi, len(pjs), ri, len(raceJobs), tail(o, 300)),
						Got: []string{"incomplete"}, Want: []string{"complete"}})
				}
				if raceReports > 0 {
					add(sessObs{Case: c.ID, Kind: "race", Variant: v.Name, Detail: "race detector: " + tail(o[strings.Index(o, "WARNING: DATA RACE"):], 600),
						Got: []string{fmt.Sprintf("%d data race reports", raceReports)}, Want: []string{"0 data race reports"}})
				}
				mu.Lock()
				stats["pairs"] += len(pjs)
				stats["racejobs"] += len(raceJobs)
				mu.Unlock()
				os.Remove(filepath.Join(dir, "p"))
			}
		}(ci, c, inputs)
	}
	wg.Wait()
	writeJSON(filepath.Join(*out, "sessions.json"), obs)
	writeJSON(filepath.Join(*out, "cases.json"), cases)
	kinds := map[string]int{}
	for _, o := range obs {
		kinds[o.Kind]++
	}
	fmt.Printf("sessions: %d cases, %d observations %v\n", len(cases), len(obs), kinds)
}

func tail(s string, n int) string {
	if len(s) > n {
		return s[:n]
	}
	return s
}

// sessionInputs: a few inputs that matter for interference: sentences (accepted,
// the stack grows and shrinks), a sentence cut short or damaged near its end
// (rejected late, leaving a deep stack behind), and a short rejected one.
func sessionInputs(c *Case, r *rand.Rand, n int) [][]int {
	terms := c.Terminals()
	ord := map[string]int{}
	for i, s := range terms {
		ord[s] = i + 1
	}
	seen := map[string]bool{}
	var res [][]int
	add := func(in []int) {
		k := fmt.Sprint(in)
		if !seen[k] && len(res) < n {
			seen[k] = true
			res = append(res, in)
		}
	}
	var sents [][]int
	for try := 0; try < 60 && len(sents) < 6; try++ {
		s := randomSentence(c, r, 2+r.Intn(5))
		if len(s) < 2 || len(s) > 7 {
			continue
		}
		in := make([]int, len(s))
		for j, x := range s {
			in[j] = ord[x]
		}
		sents = append(sents, in)
	}
	for i, in := range sents {
		switch i % 3 {
		case 0:
			add(in)
		case 1: // damaged near the end
			m := append([]int{}, in...)
			if len(terms) > 0 {
				m[len(m)-1] = 1 + r.Intn(len(terms))
				m = append(m, 1+r.Intn(len(terms)))
			}
			add(m)
		case 2:
			add(in[:len(in)-1])
		}
	}
	for _, in := range GenInputs(c, r, 30, 3, 0) {
		if len(in) > 0 {
			add(in)
		}
	}
	return res
}


// genNestProbe: an expression grammar in which EVERY parse nests to depth 2: the action of T -> n starts a nested
// parse of "n + n", whose own reductions of T -> n nest once more (innermost input "( n )").  With several parses in one
// process, nested parsers are started again and again after earlier nested parsers have finished.
func genNestProbe(r *rand.Rand, id string) *Case {
	c := &Case{ID: id, Family: "nestprobe", Start: "S", Types: map[string]string{}}
	c.Tokens = []Tok{{Name: "n"}, {Name: "+", Lit: true}, {Name: "(", Lit: true}, {Name: ")", Lit: true}}
	c.Rules = []Rule{
		{Lhs: "S", Rhs: []string{"S", "'+'", "T"}},
		{Lhs: "S", Rhs: []string{"T"}},
		{Lhs: "T", Rhs: []string{"n"}},
		{Lhs: "T", Rhs: []string{"'('", "S", "')'"}},
	}
	Valuate(c, r, true)
	ord := map[string]int{}
	for i, t := range c.Terminals() {
		ord[t] = i + 1
	}
	c.NestRule = 3
	c.NestInput = []int{ord["n"], ord["'+'"], ord["n"]}
	// the innermost input starts differently from the input of the parse around it: two parsers that (wrongly) share
	// their stack storage leave different states in it
	c.NestInput2 = []int{ord["'('"], ord["n"], ord["')'"]}
	return c
}

// genDeepProbe: brackets around a number; the campaign parses very deep nestings with it (see cmdSessions).
func genDeepProbe(r *rand.Rand, id string) *Case {
	c := &Case{ID: id, Family: "deep", Start: "S", Types: map[string]string{}}
	c.Tokens = []Tok{{Name: "n"}, {Name: "(", Lit: true}, {Name: ")", Lit: true}}
	c.Rules = []Rule{
		{Lhs: "S", Rhs: []string{"'('", "S", "')'"}},
		{Lhs: "S", Rhs: []string{"n"}},
	}
	Valuate(c, r, true)
	c.NestRule = 0
	return c
}
