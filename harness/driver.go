package main

// Driver code wrapped around generated parsers: the prologue/epilogue that a
// user of yaccgo would write (package clause, imports, GetToken, main), made
// to log every token fetch, every reduction (through the actions) and the
// final outcome.  The generated parser itself is untouched.

import (
	"fmt"
	"math/rand"
	"strings"
)

type Variant struct {
	Name   string
	Lang   string // go | ts
	Unpack bool
	Object bool
}

var AllVariants = []Variant{
	{"go", "go", false, false},
	{"go-u", "go", true, false},
	{"go-o", "go", false, true},
	{"go-o-u", "go", true, true},
	{"ts", "ts", false, false},
}

func (v Variant) CLIArgs(in, out string) []string {
	if v.Lang == "ts" {
		return []string{"generate", "typescript", in, out}
	}
	a := []string{"generate"}
	if v.Unpack {
		a = append(a, "-u")
	}
	if v.Object {
		a = append(a, "-o")
	}
	return append(a, "go", in, out)
}

const goPrologue = `package main

import (
	"bufio"
	"fmt"
	"os"
	"runtime"
	"strconv"
	"strings"
)`

const unknownCode = 2147480000

// codeExpr: how the epilogue names the token code of terminal s.
func codeExpr(s, lang string) string {
	if isLitSym(s) {
		c := s[1 : len(s)-1]
		if rs := []rune(c); len(rs) == 1 && (rs[0] < 32 || rs[0] > 126) {
			return fmt.Sprint(int(rs[0])) // not printable: give the code itself
		}
		if lang == "go" {
			if c == "'" {
				return `'\''`
			}
			if c == `\` {
				return `'\\'`
			}
			return "'" + c + "'"
		}
		return fmt.Sprint(int([]rune(c)[0]))
	}
	return s
}

func (c *Case) unionText(lang string) string {
	if !c.Valued {
		return ""
	}
	if lang == "go" {
		return "ia int\nib int\nst string"
	}
	return "ia :number = 0;\nib :number = 0;\nst :string = \"\";"
}

func (c *Case) goEpilogue(v Variant) string {
	terms := c.Terminals()
	var sb strings.Builder
	sb.WriteString("\nvar vhToks []int\nvar vhRed int\nvar vhLate = os.Getenv(\"VH_LATETRACE\") == \"1\" // tracing is switched on by the first action of each run\n")
	codes := []string{fmt.Sprint(unknownCode)}
	for _, t := range terms {
		codes = append(codes, codeExpr(t, "go"))
	}
	sb.WriteString("var vhCodes = []int{" + strings.Join(codes, ", ") + "}\n")
	inner := []string{}
	for _, k := range c.NestInput {
		inner = append(inner, fmt.Sprint(k))
	}
	inner2 := []string{}
	for _, k := range c.NestInput2 {
		inner2 = append(inner2, fmt.Sprint(k))
	}
	sb.WriteString("var vhInner = []int{" + strings.Join(inner, ", ") + "}\nvar vhInner2 = []int{" + strings.Join(inner2, ", ") + "}\nvar vhDepth int\nvar vhRunNo int\nvar vhNestRed int\n")
	// one or two parses within ONE nested level, re-initialised in between (PushContex; ParserInit; Parser; [ParserInit; Parser;]
	// PopContex): every second top-level parse of a process does it twice - what the outer parse shows must not depend on that
	nestCall := "PushContex()\n\tfor round := 0; round < 1+vhRunNo%2; round++ {\n\tres = \"nil\"\n\tParserInit()\n\tfunc() {\n\t\tdefer func() {\n\t\t\tif r := recover(); r != nil {\n\t\t\t\tres = \"rejected\"\n\t\t\t\tif fmt.Sprint(r) == \"vh-nested-diverge\" {\n\t\t\t\t\tres = \"diverged\"\n\t\t\t\t}\n\t\t\t}\n\t\t}()\n\t\tif v := Parser(vhInnerName()); v != nil {\n\t\t\tres = \"accepted \" + vhShow(v)\n\t\t}\n\t}()\n\t}\n\tPopContex()"
	if v.Object {
		nestCall = "func() {\n\t\tdefer func() {\n\t\t\tif r := recover(); r != nil {\n\t\t\t\tres = \"rejected\"\n\t\t\t\tif fmt.Sprint(r) == \"vh-nested-diverge\" {\n\t\t\t\t\tres = \"diverged\"\n\t\t\t\t}\n\t\t\t}\n\t\t}()\n\t\tif v := MakeParserContext().Parser(vhInnerName()); v != nil {\n\t\t\tres = \"accepted \" + vhShow(v)\n\t\t}\n\t}()"
	}
	sb.WriteString(`
func vhInnerName() string {
	if vhDepth >= 2 {
		return "inner2"
	}
	return "inner"
}

// vhNest: a nested parse started from inside a semantic action (what PushContex/PopContex are for).
// Its own events are not logged and its output is bracketed so that the harness can cut it out: the outer
// parse must look as if nothing happened.
func vhNest() {
	if vhDepth >= 2 { // the inner parse may itself nest once more (depth 2), not deeper
		return
	}
	vhDepth++
	if vhDepth == 1 {
		vhNestRed = 0
	}
	saveRed := vhRed
	res := "nil"
	if vhDepth == 1 {
		fmt.Printf("NESTBEGIN\n") // whatever the inner parses print (their trace, if IsTrace is on) is cut out by the harness
	}
	` + nestCall + `
	if vhDepth == 1 {
		// the outcome of the nested parse is part of what the outer run shows
		fmt.Printf("\nNESTEND\nNESTRESULT %s\n", res)
	}
	vhRed = saveRed
	vhDepth--
}
`)
	sb.WriteString(`
func vhLogR(i int) {
	if vhDepth > 0 {
		// a nested parse of a grammar with conflicts may reduce for ever, like any other: cut it off
		vhNestRed++
		if vhNestRed > 20000 {
			panic("vh-nested-diverge")
		}
		return
	}
	vhRed++
	if vhLate && vhRed == 1 {
		IsTrace = true
	}
	if vhRed > 600+40*len(vhToks) {
		fmt.Printf("DIVERGE\n")
		panic("vh-diverge")
	}
	fmt.Printf("R %d\n", i)
}

func GetToken(input string, val *ValType, pos *int) int {
	p := *pos
	*pos = p + 1
	if input == "inner" || input == "inner2" {
		toks := vhInner
		if input == "inner2" {
			toks = vhInner2
		}
		if p >= len(toks) {
			return -1
		}
		return vhCodes[toks[p]]
	}
	if p >= len(vhToks) {
		fmt.Printf("T %d -1\n", p)
		return -1
	}
	k := vhToks[p]
	fmt.Printf("T %d %d\n", p, k)
`)
	if c.Valued {
		sb.WriteString("\t*val = ValType{ia: 100 + 7*p + k, ib: 500 + 11*p + k, st: \"t\" + strconv.Itoa(p) + \"k\" + strconv.Itoa(k)}\n")
	}
	sb.WriteString("\treturn vhCodes[k]\n}\n")
	show := "\"-\""
	if c.Valued {
		switch c.tagOf(c.Start) {
		case "ia":
			show = "strconv.Itoa(v.ia)"
		case "ib":
			show = "strconv.Itoa(v.ib)"
		case "st":
			show = "strconv.Quote(v.st)"
		}
	}
	sb.WriteString("\nfunc vhShow(v *ValType) string {\n\t_ = strconv.Itoa\n\ts := " + show + "\n\tif len(s) > 20000 {\n\t\ts = s[:20000] + \"...(cut)\"\n\t}\n\treturn s\n}\n")
	call := "ParserInit()\n\tv := Parser(\"\")"
	if v.Object {
		call = "var vhc *Context\n\tif os.Getenv(\"VH_REINIT\") == \"1\" {\n\t\tif vhShared == nil {\n\t\t\tvhShared = MakeParserContext()\n\t\t} else {\n\t\t\tvhShared.ParserInit()\n\t\t}\n\t\tvhc = vhShared\n\t} else {\n\t\tvhc = MakeParserContext()\n\t}\n\tv := vhc.Parser(\"\")"
		sb.WriteString("\nvar vhShared *Context\n")
	}
	sb.WriteString(`
func vhRunOne() {
	defer func() {
		if r := recover(); r != nil {
			if _, ok := r.(runtime.Error); ok {
				fmt.Printf("CRASH %v\n", r)
				return
			}
			s := fmt.Sprint(r)
			if s == "vh-diverge" {
				return
			}
			if strings.HasPrefix(s, "Grammar error") {
				fmt.Printf("SYNTAXERR %s\n", s)
			} else {
				fmt.Printf("CRASH %s\n", s)
			}
		}
	}()
	` + call + `
	if v == nil {
		fmt.Printf("NILRESULT\n")
		return
	}
	fmt.Printf("ACCEPT %s\n", vhShow(v))
}

func main() {
	IsTrace = os.Getenv("VH_TRACE") == "1"
	f, err := os.Open(os.Args[1])
	if err != nil {
		panic(err)
	}
	if spec := os.Getenv("VH_DUMPCELLS"); spec != "" {
		// the generated look-up function, asked for every (state, symbol)
		var nst, nsy int
		fmt.Sscanf(spec, "%d,%d", &nst, &nsy)
		for st := 0; st < nst; st++ {
			s := &StateSym{Yystate: st}
			fmt.Printf("CELLS %d", st)
			for a := 0; a < nsy; a++ {
				fmt.Printf(" %d", s.Action(a))
			}
			fmt.Printf("\n")
		}
		return
	}
	sc := bufio.NewScanner(f)
	sc.Buffer(make([]byte, 1<<20), 1<<20)
	n := 0
	for sc.Scan() {
		vhToks = vhToks[:0]
		for _, w := range strings.Fields(sc.Text()) {
			k, _ := strconv.Atoi(w)
			vhToks = append(vhToks, k)
		}
		vhRed = 0
		if vhLate {
			IsTrace = false
		}
		vhRunNo = n
		fmt.Printf("BEGIN %d\n", n)
		vhRunOne()
		fmt.Printf("END\n")
		n++
	}
}
`)
	return sb.String()
}

func (c *Case) tsEpilogue() string {
	terms := c.Terminals()
	var sb strings.Builder
	codes := []string{fmt.Sprint(unknownCode)}
	for _, t := range terms {
		codes = append(codes, codeExpr(t, "ts"))
	}
	sb.WriteString("\nvar vhToks :number[] = [];\nvar vhRed = 0;\nvar vhLines :string[] = [];\n")
	sb.WriteString("const vhCodes :number[] = [" + strings.Join(codes, ", ") + "];\n")
	sb.WriteString(`
function vhLogR(i :number) {
	vhRed++;
	if (vhRed > 600 + 40 * vhToks.length) {
		vhLines.push("DIVERGE");
		throw new Error("vh-diverge");
	}
	vhLines.push("R " + i);
}

function GetToken(input :string, model :{ValType :ValType, pos :number}) :number {
	let p = model.pos;
	model.pos = p + 1;
	if (p >= vhToks.length) {
		vhLines.push("T " + p + " -1");
		return -1;
	}
	let k = vhToks[p];
	vhLines.push("T " + p + " " + k);
`)
	if c.Valued {
		sb.WriteString("\tlet v = new ValType();\n\tv.ia = 100 + 7*p + k;\n\tv.ib = 500 + 11*p + k;\n\tv.st = \"t\" + p + \"k\" + k;\n\tmodel.ValType = v;\n")
	}
	sb.WriteString("\treturn vhCodes[k];\n}\n")
	show := "\"-\""
	if c.Valued {
		switch c.tagOf(c.Start) {
		case "ia":
			show = "String(v.ia)"
		case "ib":
			show = "String(v.ib)"
		case "st":
			show = "JSON.stringify(v.st)"
		}
	}
	sb.WriteString("\nfunction vhShow(v :ValType) :string {\n\tlet s :string = " + show + ";\n\tif (s.length > 20000) { s = s.substring(0, 20000) + \"...(cut)\"; }\n\treturn s;\n}\n")
	sb.WriteString(`
function vhRunOne(toks :number[]) :string[] {
	vhToks = toks;
	vhRed = 0;
	vhLines = [];
	try {
		initialize();
		let v = Parser("");
		if (v === null || v === undefined) {
			vhLines.push("NULLRESULT");
		} else {
			vhLines.push("ACCEPT " + vhShow(v));
		}
	} catch (e) {
		if (!(e instanceof Error && e.message == "vh-diverge")) {
			vhLines.push("CRASH " + (e && e.constructor ? e.constructor.name : "") + " " + (e && e.message ? e.message : String(e)));
		}
	}
	return vhLines;
}
`)
	return sb.String()
}

// RenderVariant produces the .y text for one output variant.
func (c *Case) RenderVariant(v Variant) string {
	if v.Lang == "go" {
		return c.Render(RenderOpts{Lang: "go", Prologue: goPrologue, Union: c.unionText("go"), Epilogue: c.goEpilogue(v)})
	}
	return c.Render(RenderOpts{Lang: "ts", Prologue: "// typescript prologue", Union: c.unionText("ts"), Epilogue: c.tsEpilogue()})
}

// ---------------------------------------------------------------------------
// Decorating a syntactic case with tags and actions

var tagNames = []string{"ia", "ib", "st"}

// Valuate gives every rule a logging action and, when valued, assigns value
// tags to symbols and value-computing actions to rules.
func Valuate(c *Case, r *rand.Rand, valued bool) {
	c.Valued = valued
	if len(c.Rules) > 0 && r.Intn(4) == 0 {
		// one rule's action starts a nested parse (Go variants)
		c.NestRule = 1 + r.Intn(len(c.Rules))
		// prefer an inner input whose own derivation uses the nesting rule (so that the inner parse nests again)
		var s []string
		if cov := coverSentencesByRule(c, r); cov[c.NestRule-1] != nil && len(cov[c.NestRule-1]) <= 14 && r.Intn(3) != 0 {
			s = cov[c.NestRule-1]
		} else {
			s = randomSentence(c, r, 3)
		}
		if s != nil && len(s) <= 14 {
			ord := map[string]int{}
			for i, t := range c.Terminals() {
				ord[t] = i + 1
			}
			for _, x := range s {
				c.NestInput = append(c.NestInput, ord[x])
			}
		}
		// the innermost input: another sentence (any), usually of a different length
		if s2 := randomSentence(c, r, 4); s2 != nil && len(s2) <= 14 {
			ord := map[string]int{}
			for i, t := range c.Terminals() {
				ord[t] = i + 1
			}
			for _, x := range s2 {
				c.NestInput2 = append(c.NestInput2, ord[x])
			}
		}
		if r.Intn(3) == 0 && len(c.Terminals()) > 0 { // sometimes the inner input is not a sentence
			c.NestInput = append(c.NestInput, 1+r.Intn(len(c.Terminals())))
		}
	}
	if !valued {
		for i := range c.Rules {
			c.Rules[i].Act = Act{Kind: "log"}
		}
		return
	}
	if c.Types == nil {
		c.Types = map[string]string{}
	}
	// nonterminals: most tagged; the start symbol always
	for _, nt := range c.NTs() {
		if nt == c.Start || r.Intn(8) != 0 {
			c.Types[nt] = tagNames[r.Intn(3)]
		}
	}
	// tokens declared with %token: most tagged. Literals used only in rules
	// and precedence-only symbols stay untagged.
	seenTok := map[string]bool{}
	for i := range c.Tokens {
		if r.Intn(5) != 0 {
			tg := tagNames[r.Intn(3)]
			if !seenTok[c.Tokens[i].Sym()] { // a later re-declaration (numbering line) of the same token carries no tag
				c.Tokens[i].Tag = tg
			}
		}
		seenTok[c.Tokens[i].Sym()] = true
	}
	if c.Family == "long" {
		// the long rule's first and tenth symbol carry different tags of the same Go type ($1 and $10 read different union
		// fields; a mix-up compiles and shows only in the value)
		for i := range c.Tokens {
			switch c.Tokens[i].Name {
			case "a":
				c.Tokens[i].Tag = "ia"
			case "b":
				c.Tokens[i].Tag = "ib"
			}
		}
	}
	for i := range c.Rules {
		ru := &c.Rules[i]
		lt := c.tagOf(ru.Lhs)
		if lt == "" {
			ru.Act = Act{Kind: "log"}
			continue
		}
		if r.Intn(10) == 0 { // some rules have no $$ assignment at all
			if r.Intn(2) == 0 {
				ru.Act = Act{Kind: "log"}
			} else {
				ru.Act = Act{Kind: ""} // no action text at all: the reduction is not logged
				ru.Act = Act{Kind: "log"}
			}
			continue
		}
		var args []int
		for j, s := range ru.Rhs {
			if c.tagOf(s) != "" && (r.Intn(4) != 0 || (c.Family == "long" && (j == 0 || j == 9))) {
				args = append(args, j+1)
			}
		}
		r.Shuffle(len(args), func(a, b int) { args[a], args[b] = args[b], args[a] })
		a := Act{Args: args}
		if isIntTag(lt) {
			a.Kind = "int"
			a.Coefs = []int{r.Intn(50)}
			for range args {
				a.Coefs = append(a.Coefs, 1+r.Intn(9))
			}
		} else {
			a.Kind = "str"
			a.Coefs = []int{}
		}
		ru.Act = a
	}
}
