package main

// lexobs: drive the real grammar-file lexer (hook VerifLex) over many short ASCII texts and record the
// tokens it sends, for comparison with the character-level model spec/Lexer.tla (spec/ConfLexer.tla).

import (
	"flag"
	"fmt"
	"math/rand"
	"path/filepath"
	"strings"

	parser "github.com/acekingke/yaccgo/Parser"
)

type lexTok struct {
	Kind string `json:"kind"`
	Val  string `json:"val"`
}
type lexObs struct {
	Text []string `json:"text"` // one-character strings
	Toks []lexTok `json:"toks"`
	Src  string   `json:"src"`
}

var lexFragments = []string{
	" ", " ", "  ", "\t", "\n", "\n", "%", "%%", "%{", "%}", "%token", "%type", "%union", "%left", "%right", "%nonassoc", "%prec",
	"%precedence", "%start", "%tokenx", "% token", "%foo", "{", "}", "{ a }", "{ { } }", "<", ">", ":", ";", "|", "'", "'a'", "'\\''", "'ab'", "''",
	"\"", "\"str\"", "\"a\\\"b\"", "\"a\\b\"", "/", "/*", "*/", "/**/", "/*/", "/* c */", "/** c **/", "// c\n", "//", "$", "$$", "$1", "$12", "$accept", "$xaccept",
	"$end", "$xend ", "$x", "x", "abc", "A_1", "_z", "left", "type", "7", "42", "-", "-5", "@", "=", "(", "\\", "0x",
}

func isASCIItext(s string) bool {
	for _, r := range s {
		if r > 126 || (r < 32 && r != '\n' && r != '\t') {
			return false
		}
	}
	return true
}

func lexOne(text, src string) lexObs {
	o := lexObs{Src: src, Text: []string{}, Toks: []lexTok{}}
	for _, r := range text {
		o.Text = append(o.Text, string(r))
	}
	for _, t := range parser.VerifLex(text) {
		v := t.Value
		if string(t.Kind) == "Error" {
			v = ""
		}
		o.Toks = append(o.Toks, lexTok{Kind: string(t.Kind), Val: v})
	}
	return o
}

func cmdLexObs(args []string) {
	fs := flag.NewFlagSet("lexobs", flag.ExitOnError)
	var p popFlags
	p.register(fs)
	out := fs.String("out", ".", "out dir")
	shards := fs.Int("shards", 16, "shards")
	nrandom := fs.Int("ntexts", 2000, "random fragment texts")
	maxfrag := fs.Int("maxfrag", 10, "fragments per random text")
	nprefix := fs.Int("prefixes", 300, "prefixes / edits of rendered declaration + rule sections")
	fs.Parse(args)
	r := rand.New(rand.NewSource(p.seed*17 + 3))
	obs := make([][]lexObs, *shards)
	n := 0
	add := func(o lexObs) { obs[n%*shards] = append(obs[n%*shards], o); n++ }
	// every single fragment and every ordered pair of fragments
	for _, a := range lexFragments {
		add(lexOne(a, "single"))
	}
	for _, a := range lexFragments {
		for _, b := range lexFragments {
			if r.Intn(3) == 0 {
				add(lexOne(a+b, "pair"))
			}
		}
	}
	for i := 0; i < *nrandom; i++ {
		k := 1 + r.Intn(*maxfrag)
		var sb strings.Builder
		for j := 0; j < k; j++ {
			sb.WriteString(lexFragments[r.Intn(len(lexFragments))])
		}
		add(lexOne(sb.String(), "random"))
	}
	// rendered grammar texts without the (long) driver code: prefixes and small edits
	cases := p.cases()
	var texts []string
	for _, c := range cases {
		t := c.Render(RenderOpts{Prologue: "package main", Union: c.unionText("go")})
		if isASCIItext(t) && len(t) < 700 {
			texts = append(texts, t)
		}
	}
	for i := 0; i < *nprefix && len(texts) > 0; i++ {
		t := texts[r.Intn(len(texts))]
		switch r.Intn(3) {
		case 0:
			add(lexOne(t[:r.Intn(len(t)+1)], "prefix"))
		case 1:
			pos := r.Intn(len(t))
			add(lexOne(t[:pos]+lexFragments[r.Intn(len(lexFragments))]+t[pos:], "insert"))
		case 2:
			add(lexOne(t, "whole"))
		}
	}
	for s := range obs {
		if obs[s] == nil {
			obs[s] = []lexObs{}
		}
		writeJSON(filepath.Join(*out, fmt.Sprintf("lex-%d.json", s)), obs[s])
	}
	fmt.Printf("lexobs: %d texts\n", n)
}
