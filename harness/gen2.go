package main

// gen2: generate the same grammar several times within ONE process (C14
// "in the same or in different processes") and print the hashes of the outputs.

import (
	"crypto/sha256"
	"encoding/hex"
	"flag"
	"fmt"
	"os"
	"path/filepath"

	builder "github.com/acekingke/yaccgo/Builder"
	utils "github.com/acekingke/yaccgo/Utils"
)

func cmdGen2(args []string) {
	fs := flag.NewFlagSet("gen2", flag.ExitOnError)
	file := fs.String("file", "", ".y file")
	lang := fs.String("lang", "go", "go | typescript")
	unpack := fs.Bool("u", false, "-u")
	object := fs.Bool("o", false, "-o")
	n := fs.Int("n", 2, "repetitions")
	seq := fs.String("seq", "", "comma separated option sets to generate one after the other in this process: plain,u,o,ou (overrides -u/-o/-n)")
	dir := fs.String("dir", ".", "scratch dir")
	keepOut := fs.Bool("keepout", false, "keep the generated files (gen2-<i>.out)")
	fs.Parse(args)
	b, err := os.ReadFile(*file)
	if err != nil {
		die("%v", err)
	}
	var hashes []string
	var opts []string
	if *seq != "" {
		opts = splitComma(*seq)
	} else {
		o := "plain"
		if *unpack && *object {
			o = "ou"
		} else if *unpack {
			o = "u"
		} else if *object {
			o = "o"
		}
		for i := 0; i < *n; i++ {
			opts = append(opts, o)
		}
	}
	for i, opt := range opts {
		resetFlags()
		utils.PackFlags = !(opt == "u" || opt == "ou")
		utils.ObjectMode = opt == "o" || opt == "ou"
		out := filepath.Join(*dir, fmt.Sprintf("gen2-%d.out", i))
		var gerr error
		_, perr, _ := capture(func() {
			if *lang == "go" {
				gerr = builder.TemplateGenFromString(string(b), out)
			} else {
				gerr = builder.TsGenFromString(string(b), out)
			}
		})
		if perr != nil || gerr != nil {
			hashes = append(hashes, opt+" "+fmt.Sprintf("error:%v%v", perr, gerr))
			continue
		}
		ob, _ := os.ReadFile(out)
		h := sha256.Sum256(ob)
		hashes = append(hashes, opt+" "+hex.EncodeToString(h[:8]))
		if !*keepOut {
			os.Remove(out)
		}
	}
	for _, h := range hashes {
		fmt.Println(h)
	}
}
