package main

// gen2: generate the same grammar several times within ONE process (C14
// "in the same or in different processes") and print the hashes of the outputs.

import (
	"crypto/sha256"
	"encoding/hex"
	"flag"
	"fmt"
	"os"
	"path/filepath"

	builder "github.com/acekingke/yaccgo/Builder"
	utils "github.com/acekingke/yaccgo/Utils"
)

func cmdGen2(args []string) {
	fs := flag.NewFlagSet("gen2", flag.ExitOnError)
	file := fs.String("file", "", ".y file")
	lang := fs.String("lang", "go", "go | typescript")
	unpack := fs.Bool("u", false, "-u")
	object := fs.Bool("o", false, "-o")
	n := fs.Int("n", 2, "repetitions")
	dir := fs.String("dir", ".", "scratch dir")
	fs.Parse(args)
	b, err := os.ReadFile(*file)
	if err != nil {
		die("%v", err)
	}
	var hashes []string
	for i := 0; i < *n; i++ {
		resetFlags()
		utils.PackFlags = !*unpack
		utils.ObjectMode = *object
		out := filepath.Join(*dir, fmt.Sprintf("gen2-%d.out", i))
		var gerr error
		_, perr, _ := capture(func() {
			if *lang == "go" {
				gerr = builder.TemplateGenFromString(string(b), out)
			} else {
				gerr = builder.TsGenFromString(string(b), out)
			}
		})
		if perr != nil || gerr != nil {
			hashes = append(hashes, fmt.Sprintf("error:%v%v", perr, gerr))
			continue
		}
		ob, _ := os.ReadFile(out)
		h := sha256.Sum256(ob)
		hashes = append(hashes, hex.EncodeToString(h[:8]))
		os.Remove(out)
	}
	for _, h := range hashes {
		fmt.Println(h)
	}
}
