// C11 helper: load a generated TypeScript parser and report token constants and translate(c).
//   node runcodes.js p.ts lo hi
const fs = require('fs'), vm = require('vm'), mod = require('node:module');
const [file, lo, hi] = [process.argv[2], Number(process.argv[3]), Number(process.argv[4])];
try {
  const js = mod.stripTypeScriptTypes(fs.readFileSync(file, 'utf8'));
  const ctx = vm.createContext({ console: { log: () => {}, error: () => {} } });
  new vm.Script(js + "\n;globalThis.__tr = translate; globalThis.__named = vhNamed(); globalThis.__get = (n) => eval(n);", { filename: file }).runInContext(ctx);
  const out = [];
  for (const n of ctx.__named) out.push('CONST ' + n + ' ' + ctx.__get(n));
  const probe = (c) => out.push('X ' + c + ' ' + ctx.__tr(c));
  for (let c = lo; c <= hi; c++) probe(c);
  for (const c of [233, 223, 955, 70000, -100]) probe(c);
  process.stdout.write(out.join('\n') + '\n');
} catch (e) {
  console.log('LOADERROR ' + e.message);
  process.exit(3);
}
