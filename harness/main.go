package main

import (
	"bytes"
	"encoding/json"
	"flag"
	"fmt"
	"math/rand"
	"os"
	"path/filepath"
)

func die(format string, a ...interface{}) {
	fmt.Fprintf(os.Stderr, "harness: "+format+"\n", a...)
	os.Exit(2)
}

// denull replaces JSON nulls (nil slices) by empty arrays: TLC's Json module cannot read null.
func denull(v interface{}) interface{} {
	switch x := v.(type) {
	case nil:
		return []interface{}{}
	case []interface{}:
		for i := range x {
			x[i] = denull(x[i])
		}
		return x
	case map[string]interface{}:
		for k := range x {
			x[k] = denull(x[k])
		}
		return x
	}
	return v
}

func writeJSON(path string, v interface{}) {
	b, err := json.Marshal(v)
	if err != nil {
		die("marshal %s: %v", path, err)
	}
	if bytes.Contains(b, []byte("null")) {
		var g interface{}
		dec := json.NewDecoder(bytes.NewReader(b))
		dec.UseNumber()
		if err := dec.Decode(&g); err == nil {
			if b2, err := json.Marshal(denull(g)); err == nil {
				b = b2
			}
		}
	}
	if err := os.WriteFile(path, b, 0644); err != nil {
		die("write %s: %v", path, err)
	}
}

func readJSON(path string, v interface{}) {
	b, err := os.ReadFile(path)
	if err != nil {
		die("read %s: %v", path, err)
	}
	if err := json.Unmarshal(b, v); err != nil {
		die("parse %s: %v", path, err)
	}
}

// Population flags shared by several subcommands.
type popFlags struct {
	seed                                                                             int64
	smallMax, smallSlice, smallSlices                                                int
	nrand, ndp, nctx, nexpr, nplanted, nfeat, nlong, nbig, nring, nopt, nprobe, ntok int
	corpus                                                                           string
	featctrl                                                                         bool
}

func (p *popFlags) register(fs *flag.FlagSet) {
	fs.Int64Var(&p.seed, "seed", 1, "PRNG seed")
	fs.IntVar(&p.smallMax, "small-max", 0, "enumerate small grammars with at most this many rules (0 = none)")
	fs.IntVar(&p.smallSlice, "small-slice", 0, "residue class")
	fs.IntVar(&p.smallSlices, "small-slices", 1, "number of residue classes")
	fs.IntVar(&p.nrand, "nrand", 0, "random grammars")
	fs.IntVar(&p.ndp, "ndp", 0, "reads/includes stress grammars")
	fs.IntVar(&p.nctx, "nctx", 0, "same-core/different-context grammars")
	fs.IntVar(&p.nexpr, "nexpr", 0, "operator grammars")
	fs.IntVar(&p.nplanted, "nplanted", 0, "random grammars with planted unusable symbols")
	fs.IntVar(&p.nfeat, "nfeat", 0, "surface-feature grammars (names, literals, rule lengths)")
	fs.IntVar(&p.nlong, "nlong", 0, "grammars with long right-hand sides")
	fs.IntVar(&p.nbig, "nbig", 0, "large grammars (100-300 states)")
	fs.IntVar(&p.nring, "nring", 0, "mutually right-recursive rings (includes-SCCs)")
	fs.IntVar(&p.nprobe, "nprobe", 0, "counter grammars whose empty rule relies on the zero default of $$")
	fs.IntVar(&p.ntok, "ntok", 0, "token-declaration mixes (explicit / late / automatic numbers, literals)")
	fs.IntVar(&p.nopt, "nopt", 0, "optional parts defined after use (nullable through later rules)")
	fs.BoolVar(&p.featctrl, "featctrl", false, "surface-feature grammars may use tab / line feed as character literals")
	fs.StringVar(&p.corpus, "corpus", "", "corpus directory")
}

func (p *popFlags) cases() []*Case {
	var res []*Case
	if p.corpus != "" {
		cs, err := LoadCorpus(p.corpus)
		if err != nil {
			die("%v", err)
		}
		res = append(res, cs...)
	}
	if p.smallMax > 0 {
		res = append(res, GenSmall(p.smallMax, p.smallSlice, p.smallSlices)...)
	}
	r := rand.New(rand.NewSource(p.seed))
	for i := 0; i < p.nrand; i++ {
		res = append(res, GenRandom(r, fmt.Sprintf("rand-%d-%d", p.seed, i), randKnobs(r)))
	}
	for i := 0; i < p.ndp; i++ {
		res = append(res, GenDPStress(r, fmt.Sprintf("dp-%d-%d", p.seed, i)))
	}
	for i := 0; i < p.nctx; i++ {
		if i%2 == 0 {
			res = append(res, GenLALRFamily(r, fmt.Sprintf("ctx-%d-%d", p.seed, i)))
		} else {
			res = append(res, GenCtx2(r, fmt.Sprintf("ctx2-%d-%d", p.seed, i)))
		}
	}
	for i := 0; i < p.nexpr; i++ {
		res = append(res, GenExpr(r, fmt.Sprintf("expr-%d-%d", p.seed, i)))
	}
	for i := 0; i < p.ntok; i++ {
		tc, _ := GenTokenMix(r, fmt.Sprintf("tokmix-%d-%d", p.seed, i))
		res = append(res, tc)
	}
	for i := 0; i < p.nprobe; i++ {
		res = append(res, GenSessionProbe(r, fmt.Sprintf("probe-%d-%d", p.seed, i)))
	}
	for i := 0; i < p.nopt; i++ {
		res = append(res, GenOpts(r, fmt.Sprintf("opts-%d-%d", p.seed, i)))
	}
	for i := 0; i < p.nring; i++ {
		res = append(res, GenRing(r, fmt.Sprintf("ring-%d-%d", p.seed, i)))
	}
	for i := 0; i < p.nbig; i++ {
		if i%2 == 0 {
			res = append(res, GenTrie(r, fmt.Sprintf("trie-%d-%d", p.seed, i)))
		} else {
			res = append(res, GenBig(r, fmt.Sprintf("big-%d-%d", p.seed, i), []int{6, 3, 4, 7, 5}[(i/2)%5]))
		}
	}
	for i := 0; i < p.nlong; i++ {
		res = append(res, GenLong(r, fmt.Sprintf("long-%d-%d", p.seed, i)))
	}
	for i := 0; i < p.nfeat; i++ {
		res = append(res, GenFeature(r, fmt.Sprintf("feat-%d-%d", p.seed, i), p.featctrl))
	}
	for i := 0; i < p.nplanted; i++ {
		k := randKnobs(r)
		k.PUndefined, k.PUnproductive, k.PRuleless, k.PUnreachableJunk = 0.3, 0.4, 0.2, 0.3
		k.Repair = r.Intn(4) != 0
		pc := GenRandom(r, fmt.Sprintf("planted-%d-%d", p.seed, i), k)
		// the name "start" is special inside yaccgo (default start symbol, name of the augmented symbol):
		// sometimes the planted or the start nonterminal carries exactly that name
		switch r.Intn(6) {
		case 0:
			renameSym(pc, "U", "start")
		case 1:
			renameSym(pc, pc.Start, "start")
			pc.NoStart = r.Intn(2) == 0
		case 2:
			renameSym(pc, "Q", "start")
		}
		res = append(res, pc)
	}
	return res
}

// observe: run yaccgo in-process on a population and write shards for TLC.
func cmdObserve(args []string) {
	fs := flag.NewFlagSet("observe", flag.ExitOnError)
	var p popFlags
	p.register(fs)
	out := fs.String("out", ".", "output directory")
	shards := fs.Int("shards", 1, "number of shard files")
	one := fs.String("case", "", "observe a single case file (replay)")
	nextra := fs.Int("extra", 0, "random sentences (+ as many mutations) per grammar handed to the driver-level check")
	fs.Parse(args)
	var cases []*Case
	if *one != "" {
		var c Case
		readJSON(*one, &c)
		cases = []*Case{&c}
	} else {
		cases = p.cases()
	}
	os.MkdirAll(*out, 0755)
	obs := make([][]*Obs, *shards)
	counts := map[string]int{}
	for i, c := range cases {
		o := Observe(c)
		if *nextra > 0 && o.Outcome == "ok" {
			rr := rand.New(rand.NewSource(p.seed*31 + int64(i)))
			terms := c.Terminals()
			for _, in := range GenInputs(c, rr, 1, 0, *nextra) {
				names := []string{}
				okIn := true
				for _, k := range in {
					if k < 1 || k > len(terms) {
						okIn = false
						break
					}
					names = append(names, terms[k-1])
				}
				if okIn && len(names) > 0 {
					o.Extra = append(o.Extra, names)
				}
			}
			// and one access string per state
			for _, s := range accessStrings(c, o) {
				o.Extra = append(o.Extra, s)
			}
		}
		counts[o.Outcome]++
		obs[i%*shards] = append(obs[i%*shards], o)
	}
	for s := 0; s < *shards; s++ {
		if obs[s] == nil {
			obs[s] = []*Obs{}
		}
		writeJSON(filepath.Join(*out, fmt.Sprintf("obs-%d.json", s)), obs[s])
	}
	writeJSON(filepath.Join(*out, "cases.json"), cases)
	writeJSON(filepath.Join(*out, "observe-summary.json"), map[string]interface{}{"cases": len(cases), "outcomes": counts})
	fmt.Printf("observed %d cases: %v\n", len(cases), counts)
}

func main() {
	if len(os.Args) < 2 {
		die("usage: harness <subcommand> ...")
	}
	switch os.Args[1] {
	case "observe":
		cmdObserve(os.Args[2:])
	default:
		if !dispatchMore(os.Args[1], os.Args[2:]) {
			die("unknown subcommand %q", os.Args[1])
		}
	}
}
