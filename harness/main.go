package main

import (
	"encoding/json"
	"flag"
	"fmt"
	"math/rand"
	"os"
	"path/filepath"
)

func die(format string, a ...interface{}) {
	fmt.Fprintf(os.Stderr, "harness: "+format+"\n", a...)
	os.Exit(2)
}

func writeJSON(path string, v interface{}) {
	b, err := json.Marshal(v)
	if err != nil {
		die("marshal %s: %v", path, err)
	}
	if err := os.WriteFile(path, b, 0644); err != nil {
		die("write %s: %v", path, err)
	}
}

func readJSON(path string, v interface{}) {
	b, err := os.ReadFile(path)
	if err != nil {
		die("read %s: %v", path, err)
	}
	if err := json.Unmarshal(b, v); err != nil {
		die("parse %s: %v", path, err)
	}
}

// Population flags shared by several subcommands.
type popFlags struct {
	seed                                  int64
	smallMax, smallSlice, smallSlices     int
	nrand, ndp, nctx, nexpr, nplanted, nfeat int
	corpus                                string
}

func (p *popFlags) register(fs *flag.FlagSet) {
	fs.Int64Var(&p.seed, "seed", 1, "PRNG seed")
	fs.IntVar(&p.smallMax, "small-max", 0, "enumerate small grammars with at most this many rules (0 = none)")
	fs.IntVar(&p.smallSlice, "small-slice", 0, "residue class")
	fs.IntVar(&p.smallSlices, "small-slices", 1, "number of residue classes")
	fs.IntVar(&p.nrand, "nrand", 0, "random grammars")
	fs.IntVar(&p.ndp, "ndp", 0, "reads/includes stress grammars")
	fs.IntVar(&p.nctx, "nctx", 0, "same-core/different-context grammars")
	fs.IntVar(&p.nexpr, "nexpr", 0, "operator grammars")
	fs.IntVar(&p.nplanted, "nplanted", 0, "random grammars with planted unusable symbols")
	fs.IntVar(&p.nfeat, "nfeat", 0, "surface-feature grammars (names, literals, rule lengths)")
	fs.StringVar(&p.corpus, "corpus", "", "corpus directory")
}

func (p *popFlags) cases() []*Case {
	var res []*Case
	if p.corpus != "" {
		cs, err := LoadCorpus(p.corpus)
		if err != nil {
			die("%v", err)
		}
		res = append(res, cs...)
	}
	if p.smallMax > 0 {
		res = append(res, GenSmall(p.smallMax, p.smallSlice, p.smallSlices)...)
	}
	r := rand.New(rand.NewSource(p.seed))
	for i := 0; i < p.nrand; i++ {
		res = append(res, GenRandom(r, fmt.Sprintf("rand-%d-%d", p.seed, i), randKnobs(r)))
	}
	for i := 0; i < p.ndp; i++ {
		res = append(res, GenDPStress(r, fmt.Sprintf("dp-%d-%d", p.seed, i)))
	}
	for i := 0; i < p.nctx; i++ {
		res = append(res, GenLALRFamily(r, fmt.Sprintf("ctx-%d-%d", p.seed, i)))
	}
	for i := 0; i < p.nexpr; i++ {
		res = append(res, GenExpr(r, fmt.Sprintf("expr-%d-%d", p.seed, i)))
	}
	for i := 0; i < p.nfeat; i++ {
		res = append(res, GenFeature(r, fmt.Sprintf("feat-%d-%d", p.seed, i)))
	}
	for i := 0; i < p.nplanted; i++ {
		k := randKnobs(r)
		k.PUndefined, k.PUnproductive, k.PRuleless, k.PUnreachableJunk = 0.3, 0.4, 0.2, 0.3
		k.Repair = r.Intn(4) != 0
		res = append(res, GenRandom(r, fmt.Sprintf("planted-%d-%d", p.seed, i), k))
	}
	return res
}

// observe: run yaccgo in-process on a population and write shards for TLC.
func cmdObserve(args []string) {
	fs := flag.NewFlagSet("observe", flag.ExitOnError)
	var p popFlags
	p.register(fs)
	out := fs.String("out", ".", "output directory")
	shards := fs.Int("shards", 1, "number of shard files")
	one := fs.String("case", "", "observe a single case file (replay)")
	fs.Parse(args)
	var cases []*Case
	if *one != "" {
		var c Case
		readJSON(*one, &c)
		cases = []*Case{&c}
	} else {
		cases = p.cases()
	}
	os.MkdirAll(*out, 0755)
	obs := make([][]*Obs, *shards)
	counts := map[string]int{}
	for i, c := range cases {
		o := Observe(c)
		counts[o.Outcome]++
		obs[i%*shards] = append(obs[i%*shards], o)
	}
	for s := 0; s < *shards; s++ {
		if obs[s] == nil {
			obs[s] = []*Obs{}
		}
		writeJSON(filepath.Join(*out, fmt.Sprintf("obs-%d.json", s)), obs[s])
	}
	writeJSON(filepath.Join(*out, "cases.json"), cases)
	writeJSON(filepath.Join(*out, "observe-summary.json"), map[string]interface{}{"cases": len(cases), "outcomes": counts})
	fmt.Printf("observed %d cases: %v\n", len(cases), counts)
}

func main() {
	if len(os.Args) < 2 {
		die("usage: harness <subcommand> ...")
	}
	switch os.Args[1] {
	case "observe":
		cmdObserve(os.Args[2:])
	default:
		if !dispatchMore(os.Args[1], os.Args[2:]) {
			die("unknown subcommand %q", os.Args[1])
		}
	}
}
