package main

// listobs: C18.  One in-process run with DebugFlags on; records the debug
// listing (parsed), the DOT graph returned by DrawGrammar for the tables of
// the same run (parsed), and those tables.

import (
	"flag"
	"fmt"
	"path/filepath"
	"regexp"
	"strconv"
	"strings"

	parser "github.com/acekingke/yaccgo/Parser"
	utils "github.com/acekingke/yaccgo/Utils"
)

type listGoto struct {
	Sym string `json:"sym"`
	To  int    `json:"to"` // 1-based
}
type listState struct {
	N     int        `json:"n"` // 1-based
	Items [][]string `json:"items"`
	Gotos []listGoto `json:"gotos"`
}
type listLA struct {
	Q   int      `json:"q"` // 1-based
	Lhs string   `json:"lhs"`
	Rhs []string `json:"rhs"`
	LA  []string `json:"la"`
}
type dotRed struct {
	Sym  string `json:"sym"`
	Rule int    `json:"rule"` // 1-based (TLA numbering)
}
type dotNode struct {
	N      int        `json:"n"`
	Items  [][]string `json:"items"`
	Reds   []dotRed   `json:"reds"`
	Filled bool       `json:"filled"`
}
type dotEdge struct {
	From  int    `json:"from"`
	To    int    `json:"to"`
	Label string `json:"label"`
}
type listObs struct {
	Obs
	LStates    []listState `json:"lstates"`
	LLA        []listLA    `json:"lla"`
	DNodes     []dotNode   `json:"dnodes"`
	DEdges     []dotEdge   `json:"dedges"`
	ParseNotes []string    `json:"parsenotes"`
}

func internalName(s string) string { // names as the listing prints them -> abstract
	s = strings.TrimSpace(s)
	if strings.HasPrefix(s, "$operator") {
		return "'" + s[len("$operator"):] + "'"
	}
	if s == "start" {
		return s // resolved by caller (augmented start is ID 0)
	}
	return s
}

var stateHdr = regexp.MustCompile(`^--------state (\d+)------------$`)
var gotoLine = regexp.MustCompile(`^at (.*) goto (-?\d+) $`)

func parseListing(out string, o *listObs, augName string) {
	lines := strings.Split(out, "\n")
	sec := ""
	var cur *listState
	fixAug := func(s string) string {
		if s == augName {
			return AugStart
		}
		return s
	}
	for _, ln := range lines {
		switch {
		case strings.HasPrefix(ln, "=========Show State Closure"):
			sec = "states"
			continue
		case strings.HasPrefix(ln, "===========SHOW TRANS"):
			sec = "trans"
			if cur != nil {
				o.LStates = append(o.LStates, *cur)
				cur = nil
			}
			continue
		case strings.HasPrefix(ln, "==========Show LookAhead SET"):
			sec = "la"
			continue
		case strings.HasPrefix(ln, "=========="):
			sec = "other"
			continue
		}
		switch sec {
		case "states":
			if m := stateHdr.FindStringSubmatch(ln); m != nil {
				if cur != nil {
					o.LStates = append(o.LStates, *cur)
				}
				n, _ := strconv.Atoi(m[1])
				cur = &listState{N: n + 1, Items: [][]string{}, Gotos: []listGoto{}}
				continue
			}
			if cur == nil || ln == "GOTO:" || ln == "" {
				continue
			}
			if m := gotoLine.FindStringSubmatch(ln); m != nil {
				to, _ := strconv.Atoi(m[2])
				cur.Gotos = append(cur.Gotos, listGoto{Sym: internalName(m[1]), To: to + 1})
				continue
			}
			if i := strings.Index(ln, "-->"); i > 0 {
				toks := []string{ln[:i], "->"}
				for _, f := range strings.Fields(ln[i+3:]) {
					toks = append(toks, internalName(f))
				}
				cur.Items = append(cur.Items, toks)
				continue
			}
			o.ParseNotes = append(o.ParseNotes, "unparsed listing line: "+ln)
		case "la":
			// "<q>:<lhs>--> a  b  :  x y"   (stop at the first line that is not of this shape)
			i := strings.Index(ln, ":")
			j := strings.Index(ln, "-->")
			k := strings.LastIndex(ln, " : ")
			if i <= 0 || j < i || k < j {
				if strings.TrimSpace(ln) != "" && !strings.HasPrefix(ln, "it is nonassoc") && !strings.HasPrefix(ln, "nTerminals") && !strings.HasPrefix(ln, "warning:") && !strings.HasPrefix(ln, "The table") && !strings.HasPrefix(ln, "the table") {
					o.ParseNotes = append(o.ParseNotes, "unparsed look-ahead line: "+ln)
				}
				continue
			}
			q, err := strconv.Atoi(ln[:i])
			if err != nil {
				continue
			}
			rec := listLA{Q: q + 1, Lhs: fixAug(ln[i+1 : j]), Rhs: []string{}, LA: []string{}}
			for _, f := range strings.Fields(ln[j+3 : k]) {
				rec.Rhs = append(rec.Rhs, internalName(f))
			}
			for _, f := range strings.Fields(ln[k+3:]) {
				rec.LA = append(rec.LA, internalName(f))
			}
			o.LLA = append(o.LLA, rec)
		}
	}
	if cur != nil {
		o.LStates = append(o.LStates, *cur)
	}
	for si := range o.LStates {
		for ii := range o.LStates[si].Items {
			o.LStates[si].Items[ii][0] = fixAug(o.LStates[si].Items[ii][0])
		}
	}
}

var dotNodeRe = regexp.MustCompile(`(?m)^\s*state_(\d+)\s*\[(.*)\];\s*$`)
var dotEdgeRe = regexp.MustCompile(`(?m)^\s*state_(\d+)->state_(\d+)\s*\[\s*label="(.*)"\s*\];\s*$`)
var dotLabelRe = regexp.MustCompile(`label="((?:[^"\\]|\\.)*)"`)
var dotRedRe = regexp.MustCompile(`^(.*): reduce rule at (\d+)$`)

func dotName(s string) string {
	var sb strings.Builder
	rs := []rune(strings.TrimSpace(s))
	for i := 0; i < len(rs); i++ {
		if rs[i] == '\\' && i+1 < len(rs) {
			i++
		}
		sb.WriteRune(rs[i])
	}
	return strings.TrimSpace(sb.String())
}

func parseDot(dot string, o *listObs, augName string) {
	for _, m := range dotEdgeRe.FindAllStringSubmatch(dot, -1) {
		a, _ := strconv.Atoi(m[1])
		b, _ := strconv.Atoi(m[2])
		lab := dotName(m[3])
		if lab == augName {
			lab = AugStart
		}
		o.DEdges = append(o.DEdges, dotEdge{From: a + 1, To: b + 1, Label: lab})
	}
	for _, m := range dotNodeRe.FindAllStringSubmatch(dot, -1) {
		n, _ := strconv.Atoi(m[1])
		node := dotNode{N: n + 1, Items: [][]string{}, Reds: []dotRed{}}
		attrs := m[2]
		node.Filled = strings.Contains(attrs, "style=filled") || strings.Contains(attrs, `style="filled"`)
		lm := dotLabelRe.FindStringSubmatch(attrs)
		if lm == nil {
			o.ParseNotes = append(o.ParseNotes, "node without label: "+m[0])
			o.DNodes = append(o.DNodes, node)
			continue
		}
		label := lm[1]
		// "<f0> state n|{item|item}|{sym: reduce rule at r|...}"; metacharacters that belong to a
		// symbol name are backslash-escaped
		label = strings.TrimPrefix(label, fmt.Sprintf("<f0> state %d|", n))
		groups := splitRecord(label)
		for gi, grp := range groups {
			for _, part := range grp {
				if part == "" {
					continue
				}
				if rm := dotRedRe.FindStringSubmatch(part); rm != nil && gi > 0 {
					r, _ := strconv.Atoi(rm[2])
					node.Reds = append(node.Reds, dotRed{Sym: strings.TrimSpace(rm[1]), Rule: r + 1})
					continue
				}
				i := strings.Index(part, "->")
				if i < 0 {
					o.ParseNotes = append(o.ParseNotes, "unparsed node part: "+part)
					continue
				}
				lhs := part[:i]
				if lhs == augName {
					lhs = AugStart
				}
				toks := []string{lhs, "->"}
				rest := part[i+2:]
				rest = strings.ReplaceAll(rest, "•", " @ ")
				rest = strings.ReplaceAll(rest, "ε", " <eps> ")
				toks = append(toks, strings.Fields(rest)...)
				node.Items = append(node.Items, toks)
			}
		}
		o.DNodes = append(o.DNodes, node)
	}
}

// splitRecord splits a record label "{a|b}|{c}" into groups of fields, honouring
// backslash escapes; the fields are returned unescaped.
func splitRecord(s string) [][]string {
	var res [][]string
	var cur []string
	var field strings.Builder
	depth := 0
	rs := []rune(s)
	for i := 0; i < len(rs); i++ {
		ch := rs[i]
		if ch == '\\' && i+1 < len(rs) {
			field.WriteRune(rs[i+1])
			i++
			continue
		}
		switch ch {
		case '{':
			depth++
			if depth == 1 {
				cur = nil
				field.Reset()
				continue
			}
		case '}':
			depth--
			if depth == 0 {
				cur = append(cur, field.String())
				field.Reset()
				res = append(res, cur)
				continue
			}
		case '|':
			if depth == 1 {
				cur = append(cur, field.String())
				field.Reset()
				continue
			}
			if depth == 0 {
				continue
			}
		}
		field.WriteRune(ch)
	}
	return res
}

func ObserveListing(c *Case) *listObs {
	lo := &listObs{}
	lo.Obs = *Observe(c) // plain run, for the grammar view; the debug run below supplies everything compared
	lo.LStates, lo.LLA, lo.DNodes, lo.DEdges, lo.ParseNotes = []listState{}, []listLA{}, []dotNode{}, []dotEdge{}, []string{}
	if lo.Outcome != "ok" {
		return lo
	}
	text := lo.Text
	resetFlags()
	utils.DebugFlags = true
	w, outcome, diag, stdout := buildInProcess(text)
	utils.DebugFlags = false
	if outcome != "ok" {
		lo.Outcome, lo.Diag = outcome, "debug run: "+diag
		return lo
	}
	root := w.VistorNode.(*parser.RootVistor)
	l := root.LALR1
	// tables, states, look-aheads of THIS run (numbering may differ from the plain run)
	fresh := projectRun(c, w, stdout)
	fresh.ID, fresh.G, fresh.Text = lo.ID, lo.G, lo.Text
	lo.Obs = *fresh
	aug := l.G.Symbols[0].Name
	parseListing(stdout, lo, aug)
	dot := l.DrawGrammar(l.GTable).String()
	parseDot(dot, lo, aug)
	return lo
}

func cmdListObs(args []string) {
	fs := flag.NewFlagSet("listobs", flag.ExitOnError)
	var p popFlags
	p.register(fs)
	out := fs.String("out", ".", "out dir")
	shards := fs.Int("shards", 16, "shards")
	fs.Parse(args)
	cases := p.cases()
	obs := make([][]*listObs, *shards)
	n := 0
	for _, c := range cases {
		o := ObserveListing(c)
		if o.Outcome != "ok" {
			continue
		}
		obs[n%*shards] = append(obs[n%*shards], o)
		n++
	}
	for s := range obs {
		if obs[s] == nil {
			obs[s] = []*listObs{}
		}
		writeJSON(filepath.Join(*out, fmt.Sprintf("lobs-%d.json", s)), obs[s])
	}
	writeJSON(filepath.Join(*out, "cases.json"), cases)
	fmt.Printf("listobs: %d accepted grammars observed\n", n)
}
