package main

// Abstract grammar cases: what a grammar *is*, independent of how it is
// written in a .y file and of yaccgo's internal numbering.  The harness only
// generates, renders and projects; every judgement is TLC's.

import (
	"bufio"
	"fmt"
	"math/rand"
	"os"
	"path/filepath"
	"sort"
	"strings"
)

// Tok is a declared terminal.  Name is an identifier, or for a character
// literal the character itself (Lit = true).
type Tok struct {
	Name string `json:"name"`
	Lit  bool   `json:"lit"`
	Num  int    `json:"num"` // explicit token number, 0 = automatic
	Tag  string `json:"tag"`
}

// Sym is the abstract symbol name used in rules: identifiers as they are,
// literals as 'c'.
func (t Tok) Sym() string {
	if t.Lit {
		return "'" + t.Name + "'"
	}
	return t.Name
}

type PrecLine struct {
	Assoc string   `json:"assoc"` // left | right | nonassoc
	Syms  []string `json:"syms"`  // abstract symbol names
	Tag   string   `json:"tag,omitempty"`
}

// Act describes the semantic action of a rule abstractly (see actions.go).
type Act struct {
	Kind    string `json:"kind"`              // "" (no action) | "log" (only logs) | "int" | "str"
	Args    []int  `json:"args"`              // 1-based rhs positions used
	Coefs   []int  `json:"coefs"`             // constants: Coefs[0] + sum Coefs[i+1]*$Args[i]
	Abort   bool   `json:"abort,omitempty"`   // the action panics for some values after assigning $$ (session experiments only)
	AbortEq int    `json:"aborteq,omitempty"` // with Abort: panic exactly when $$ equals this value (0: when $$ % 5 == 2)
}

type Rule struct {
	Lhs  string   `json:"lhs"`
	Rhs  []string `json:"rhs"`
	Prec string   `json:"prec"` // explicit %prec symbol, "" = none
	Act  Act      `json:"act"`
	// RawAct, when set, is the action text as is (text-level experiments; such files are not built)
	RawAct string `json:"rawact,omitempty"`
}

type Case struct {
	ID      string            `json:"id"`
	Family  string            `json:"family"`
	Tokens  []Tok             `json:"tokens"` // %token declarations, in order
	Prec    []PrecLine        `json:"prec"`   // precedence lines, lowest first
	Types   map[string]string `json:"types"`  // nonterminal -> tag (via %type)
	Start   string            `json:"start"`
	NoStart bool              `json:"nostart"` // omit %start (start symbol must then be called "start")
	Rules   []Rule            `json:"rules"`
	Valued  bool              `json:"valued"` // has %union and value-computing actions
	// NestRule > 0: the action of that rule (1-based) starts a nested parse of NestInput on the same parser
	// (Go variants: PushContex/ParserInit/Parser/PopContex, or a second context with -o) before doing its own work
	NestRule  int   `json:"nestrule,omitempty"`
	NestInput []int `json:"nestinput,omitempty"`
	// input of the parse nested inside the nested parse (depth 2); different from NestInput so that a stack
	// shared between the two levels shows
	NestInput2 []int `json:"nestinput2,omitempty"`
}

func isLitSym(s string) bool { return len(s) >= 3 && s[0] == '\'' && s[len(s)-1] == '\'' }

func (c *Case) NTs() []string {
	seen := map[string]bool{}
	var res []string
	for _, r := range c.Rules {
		if !seen[r.Lhs] {
			seen[r.Lhs] = true
			res = append(res, r.Lhs)
		}
	}
	return res
}

func (c *Case) isNT(s string) bool {
	for _, r := range c.Rules {
		if r.Lhs == s {
			return true
		}
	}
	return false
}

// Terminals returns every terminal of the grammar as yaccgo will see it:
// declared tokens, symbols named on precedence lines, and character literals
// used in rules (yacc declares those implicitly).
func (c *Case) Terminals() []string {
	seen := map[string]bool{}
	var res []string
	add := func(s string) {
		if !seen[s] {
			seen[s] = true
			res = append(res, s)
		}
	}
	for _, t := range c.Tokens {
		add(t.Sym())
	}
	for _, p := range c.Prec {
		for _, s := range p.Syms {
			add(s)
		}
	}
	for _, r := range c.Rules {
		for _, s := range r.Rhs {
			if isLitSym(s) {
				add(s)
			}
		}
		if isLitSym(r.Prec) {
			// a %prec literal that is declared nowhere else is not a token of
			// the grammar; generators never produce that.
			_ = r
		}
	}
	return res
}

func (c *Case) isTerm(s string) bool {
	for _, t := range c.Terminals() {
		if t == s {
			return true
		}
	}
	return false
}

type tokPrec struct {
	Name  string `json:"name"`
	Level int    `json:"level"`
	Assoc string `json:"assoc"`
}

func (c *Case) TokPrec() []tokPrec {
	m := map[string]tokPrec{}
	var order []string
	for i, p := range c.Prec {
		for _, s := range p.Syms {
			if _, ok := m[s]; !ok {
				order = append(order, s)
			}
			m[s] = tokPrec{Name: s, Level: i + 1, Assoc: p.Assoc} // a later line overrides (as yaccgo's preMap does)
		}
	}
	res := []tokPrec{}
	for _, s := range order {
		res = append(res, m[s])
	}
	return res
}

func (c *Case) precLevel(s string) int {
	for _, p := range c.TokPrec() {
		if p.Name == s {
			return p.Level
		}
	}
	return 0
}

// effPrec returns the precedence symbol of a rule and whether the answer is
// the same under yacc's definition (last terminal of the rule) and yaccgo's
// (last right-hand-side symbol that has a precedence).  When they differ the
// property C04 does not say which is meant, so the rule is "don't care".
func (c *Case) effPrec(r Rule) (sym string, agreed bool) {
	if r.Prec != "" {
		if c.precLevel(r.Prec) == 0 {
			return "", true // %prec naming a symbol without precedence level: the rule has no precedence
		}
		return r.Prec, true
	}
	lastTerm, lastWithPrec := "", ""
	for _, s := range r.Rhs {
		if c.isTerm(s) {
			lastTerm = s
			if c.precLevel(s) != 0 {
				lastWithPrec = s
			}
		}
	}
	if lastTerm == "" {
		return "", true
	}
	if c.precLevel(lastTerm) != 0 {
		return lastTerm, true
	}
	// last terminal has no precedence
	if lastWithPrec == "" {
		return "", true
	}
	return lastWithPrec, false
}

// ---------------------------------------------------------------------------
// TLA-side view of the grammar

type tlaRule struct {
	Lhs    string   `json:"lhs"`
	Rhs    []string `json:"rhs"`
	Prec   string   `json:"prec"`
	PrecDC bool     `json:"precdc"`
}

type tlaGrammar struct {
	Rules   []tlaRule `json:"rules"`
	Terms   []string  `json:"terms"`
	NTs     []string  `json:"nts"` // nonterminals by declaration (%type, %start) or by having a rule
	TokPrec []tokPrec `json:"tokprec"`
}

const AugStart = "$accept"

func (c *Case) TLA() tlaGrammar {
	g := tlaGrammar{Terms: c.Terminals(), TokPrec: c.TokPrec()}
	if g.Terms == nil {
		g.Terms = []string{}
	}
	g.Rules = append(g.Rules, tlaRule{Lhs: AugStart, Rhs: []string{c.Start}})
	g.NTs = append([]string{AugStart}, c.NTs()...)
	var typed []string
	for nt := range c.Types {
		typed = append(typed, nt)
	}
	sort.Strings(typed)
	for _, nt := range append(typed, c.Start) {
		dup := c.isTerm(nt)
		for _, x := range g.NTs {
			if x == nt {
				dup = true
			}
		}
		if !dup {
			g.NTs = append(g.NTs, nt)
		}
	}
	for _, r := range c.Rules {
		p, ok := c.effPrec(r)
		rhs := r.Rhs
		if rhs == nil {
			rhs = []string{}
		}
		g.Rules = append(g.Rules, tlaRule{Lhs: r.Lhs, Rhs: rhs, Prec: p, PrecDC: !ok})
	}
	return g
}

// ---------------------------------------------------------------------------
// Rendering to .y text (minimal layout; richer layouts are C10's business)

type RenderOpts struct {
	Lang     string // "go" | "ts" | "" (syntax only: no actions, no code)
	Prologue string
	Epilogue string
	Union    string
}

func litText(s string) string { // abstract 'c' -> .y text
	c := s[1 : len(s)-1]
	if c == "'" || c == `\` {
		panic("the quote and backslash characters cannot be written as literals in a yaccgo grammar file")
	}
	return "'" + c + "'"
}

func symText(s string) string {
	if isLitSym(s) {
		return litText(s)
	}
	return s
}

func (c *Case) Render(o RenderOpts) string {
	var sb strings.Builder
	if o.Prologue != "" {
		sb.WriteString("%{\n" + o.Prologue + "\n%}\n")
	}
	if o.Union != "" {
		sb.WriteString("%union {\n" + o.Union + "\n}\n")
	}
	// consecutive tokens with the same tag are sometimes declared in one %token directive
	// ("%token <t> A 300 B C"), chosen by the case's name
	group := idHash(c.ID+"g")%2 == 0
	for i, t := range c.Tokens {
		cont := group && i > 0 && c.Tokens[i-1].Tag == t.Tag
		if cont && t.Lit && !c.Tokens[i-1].Lit && c.Tokens[i-1].Num == 0 {
			cont = false // "%token NAME 'c'" would declare 'c' as the alias of NAME
		}
		if cont {
			sb.WriteString(" ")
		} else {
			if i > 0 {
				sb.WriteString("\n")
			}
			sb.WriteString("%token ")
			if t.Tag != "" {
				sb.WriteString("<" + t.Tag + "> ")
			}
		}
		sb.WriteString(symText(t.Sym()))
		if t.Num != 0 {
			// the number is a decimal numeral, with or without leading zeros; a comment may sit directly in front of it
			switch idHash(c.ID+"n") % 4 {
			case 1:
				sb.WriteString(fmt.Sprintf(" %05d", t.Num))
			case 2:
				sb.WriteString(fmt.Sprintf("/*%s*/%d", strings.ToLower(t.Name), t.Num))
			default:
				sb.WriteString(fmt.Sprintf(" %d", t.Num))
			}
		}
	}
	if len(c.Tokens) > 0 {
		sb.WriteString("\n")
	}
	for _, p := range c.Prec {
		sb.WriteString("%" + p.Assoc)
		if p.Tag != "" {
			sb.WriteString(" <" + p.Tag + ">")
		}
		for _, s := range p.Syms {
			sb.WriteString(" " + symText(s))
		}
		sb.WriteString("\n")
	}
	// %type lines, deterministic order
	var nts []string
	for nt := range c.Types {
		nts = append(nts, nt)
	}
	sort.Strings(nts)
	for _, nt := range nts {
		sb.WriteString("%type <" + c.Types[nt] + "> " + nt + "\n")
	}
	if !c.NoStart {
		sb.WriteString("%start " + c.Start + "\n")
	}
	sb.WriteString("%%\n")
	for i, r := range c.Rules {
		sb.WriteString(r.Lhs + " :")
		for _, s := range r.Rhs {
			sb.WriteString(" " + symText(s))
		}
		if r.Prec != "" {
			sb.WriteString(" %prec " + symText(r.Prec))
		}
		if o.Lang != "" {
			if a := c.actionText(i, o.Lang); a != "" {
				sb.WriteString(" { " + a + " }")
			}
		}
		// the ';' after a rule is optional in yacc: a third of the cases leave it out after the last rule,
		// another third everywhere (chosen by the case's name, so a case always renders the same way)
		semi := true
		switch idHash(c.ID) % 3 {
		case 1:
			semi = i+1 < len(c.Rules)
		case 2:
			semi = false
		}
		if semi {
			sb.WriteString(" ;\n")
		} else {
			sb.WriteString("\n")
		}
	}
	sb.WriteString("%%\n")
	sb.WriteString(o.Epilogue)
	return sb.String()
}

// ---------------------------------------------------------------------------
// Populations

var smallNT = []string{"S", "A"}
var smallT = []string{"a", "b"}

// smallRules: every rule with lhs in {S,A} and rhs of length <= 2 over {S,A,a,b}
func smallRules() []Rule {
	syms := append(append([]string{}, smallNT...), smallT...)
	var rhss [][]string
	rhss = append(rhss, []string{})
	for _, x := range syms {
		rhss = append(rhss, []string{x})
	}
	for _, x := range syms {
		for _, y := range syms {
			rhss = append(rhss, []string{x, y})
		}
	}
	var res []Rule
	for _, l := range smallNT {
		for _, rhs := range rhss {
			res = append(res, Rule{Lhs: l, Rhs: rhs})
		}
	}
	return res
}

// GenSmall enumerates every grammar with at most maxRules of those rules
// (as sets, in canonical order).  slice/nslices selects a residue class so
// the quick tier can take a fixed fraction.
func GenSmall(maxRules, slice, nslices int) []*Case {
	all := smallRules()
	var res []*Case
	n := 0
	var rec func(start int, cur []Rule)
	rec = func(start int, cur []Rule) {
		if len(cur) > 0 {
			if n%nslices == slice {
				c := &Case{ID: fmt.Sprintf("small-%d", n), Family: "small", Start: "S", Types: map[string]string{}}
				for _, t := range smallT {
					c.Tokens = append(c.Tokens, Tok{Name: t})
				}
				c.Rules = append([]Rule{}, cur...)
				res = append(res, c)
			}
			n++
		}
		if len(cur) == maxRules {
			return
		}
		for i := start; i < len(all); i++ {
			rec(i+1, append(cur, all[i]))
		}
	}
	rec(0, nil)
	return res
}

// productiveSet is used only to steer random generation (so that most random
// grammars are usable); it is not an oracle.
func productiveSet(c *Case) map[string]bool {
	p := map[string]bool{}
	for _, t := range c.Terminals() {
		p[t] = true
	}
	for changed := true; changed; {
		changed = false
		for _, r := range c.Rules {
			if p[r.Lhs] {
				continue
			}
			ok := true
			for _, s := range r.Rhs {
				if !p[s] {
					ok = false
				}
			}
			if ok {
				p[r.Lhs] = true
				changed = true
			}
		}
	}
	return p
}

var randNT = []string{"S", "A", "B", "C", "D"}
var randTid = []string{"a", "b", "c", "d", "e"}
var randTlit = []string{"'+'", "'-'", "'*'", "'('", "')'", "'='", "','", "'a'", "'e'", "'o'", "'p'", "'r'", "'t'", "'x'", "'$'", "'%'"}

type Knobs struct {
	NNT, NT          int
	MaxAlt, MaxLen   int
	PEmpty           float64 // probability of an empty alternative
	PTerm            float64 // probability that a rhs symbol is a terminal
	PPrec            float64 // probability of precedence declarations
	PRulePrec        float64 // probability of %prec on a rule
	Literals         bool
	Repair           bool    // add terminal-only alternatives to unproductive nonterminals
	PUndefined       float64 // probability to plant an undefined symbol
	PUnproductive    float64 // probability to plant an unproductive nonterminal
	PRuleless        float64 // probability to plant a %type nonterminal without rules
	PUnreachableJunk float64
}

func randKnobs(r *rand.Rand) Knobs {
	k := Knobs{
		NNT: 1 + r.Intn(5), NT: 1 + r.Intn(5),
		MaxAlt: 1 + r.Intn(4), MaxLen: 1 + r.Intn(4),
		PEmpty: []float64{0, 0.1, 0.3, 0.5}[r.Intn(4)],
		PTerm:  []float64{0.2, 0.4, 0.6, 0.8}[r.Intn(4)],
		PPrec:  []float64{0, 0, 0.5, 1}[r.Intn(4)], PRulePrec: 0.15,
		Literals: r.Intn(3) == 0, Repair: true,
	}
	return k
}

// GenRandom makes one random grammar.  planted: allow planted C12 defects.
func GenRandom(r *rand.Rand, id string, k Knobs) *Case {
	c := &Case{ID: id, Family: "rand", Types: map[string]string{}}
	nts := randNT[:k.NNT]
	var ts []string
	for i := 0; i < k.NT; i++ {
		if k.Literals && r.Intn(2) == 0 {
			ts = append(ts, randTlit[r.Intn(len(randTlit))])
		} else {
			ts = append(ts, randTid[i])
		}
	}
	// dedupe terminals
	seen := map[string]bool{}
	var ts2 []string
	for _, t := range ts {
		if !seen[t] {
			seen[t] = true
			ts2 = append(ts2, t)
		}
	}
	ts = ts2
	for _, t := range ts {
		if isLitSym(t) {
			if r.Intn(2) == 0 { // literals may be declared or just used
				c.Tokens = append(c.Tokens, Tok{Name: t[1 : len(t)-1], Lit: true})
			}
		} else {
			c.Tokens = append(c.Tokens, Tok{Name: t})
		}
	}
	c.Start = nts[0]
	pick := func() string {
		if r.Float64() < k.PTerm {
			return ts[r.Intn(len(ts))]
		}
		return nts[r.Intn(len(nts))]
	}
	for _, nt := range nts {
		nalt := 1 + r.Intn(k.MaxAlt)
		for a := 0; a < nalt; a++ {
			var rhs []string
			if r.Float64() >= k.PEmpty {
				n := 1 + r.Intn(k.MaxLen)
				for j := 0; j < n; j++ {
					rhs = append(rhs, pick())
				}
			}
			c.Rules = append(c.Rules, Rule{Lhs: nt, Rhs: rhs})
		}
	}
	if k.Repair {
		p := productiveSet(c)
		for _, nt := range nts {
			if !p[nt] {
				c.Rules = append(c.Rules, Rule{Lhs: nt, Rhs: []string{ts[r.Intn(len(ts))]}})
			}
		}
	}
	// precedence
	if r.Float64() < k.PPrec {
		nl := 1 + r.Intn(3)
		perm := r.Perm(len(ts))
		pi := 0
		for l := 0; l < nl && pi < len(perm); l++ {
			pl := PrecLine{Assoc: []string{"left", "right", "nonassoc"}[r.Intn(3)]}
			m := 1 + r.Intn(2)
			for j := 0; j < m && pi < len(perm); j++ {
				pl.Syms = append(pl.Syms, ts[perm[pi]])
				pi++
			}
			c.Prec = append(c.Prec, pl)
		}
		var withPrec []string
		for _, p := range c.Prec {
			withPrec = append(withPrec, p.Syms...)
		}
		for i := range c.Rules {
			if r.Float64() < k.PRulePrec {
				c.Rules[i].Prec = withPrec[r.Intn(len(withPrec))]
				if r.Intn(5) == 0 { // %prec may name a token that has no precedence level: the rule then has none
					c.Rules[i].Prec = ts[r.Intn(len(ts))]
				}
			}
		}
	}
	// planted defects (C12)
	if r.Float64() < k.PUndefined && len(c.Rules) > 0 {
		i := r.Intn(len(c.Rules))
		pos := 0
		if len(c.Rules[i].Rhs) > 0 {
			pos = r.Intn(len(c.Rules[i].Rhs) + 1)
		}
		rhs := append([]string{}, c.Rules[i].Rhs[:pos]...)
		rhs = append(rhs, "Undef")
		rhs = append(rhs, c.Rules[i].Rhs[pos:]...)
		c.Rules[i].Rhs = rhs
	}
	if r.Float64() < k.PUnproductive {
		// a nonterminal that only ever derives itself or a partner
		switch r.Intn(3) {
		case 0:
			c.Rules = append(c.Rules, Rule{Lhs: "U", Rhs: []string{"U", ts[0]}})
		case 1:
			c.Rules = append(c.Rules, Rule{Lhs: "U", Rhs: []string{ts[0], "V"}}, Rule{Lhs: "V", Rhs: []string{"U"}}, Rule{Lhs: "V", Rhs: []string{"V", ts[0]}})
		case 2:
			c.Rules = append(c.Rules, Rule{Lhs: "U", Rhs: []string{"U"}})
		}
		if r.Intn(2) == 0 && len(c.Rules) > 0 { // make it reachable
			i := r.Intn(len(c.Rules))
			if c.Rules[i].Lhs != "U" && c.Rules[i].Lhs != "V" {
				c.Rules = append(c.Rules, Rule{Lhs: c.Rules[i].Lhs, Rhs: []string{ts[0], "U"}})
			}
		}
	}
	if r.Float64() < k.PRuleless {
		c.Types["Q"] = "ia"
		if r.Intn(2) == 0 && len(c.Rules) > 0 {
			i := r.Intn(len(c.Rules))
			c.Rules[i].Rhs = append(c.Rules[i].Rhs, "Q")
		}
	}
	if r.Float64() < k.PUnreachableJunk {
		c.Rules = append(c.Rules, Rule{Lhs: "Z", Rhs: []string{ts[0], "Z"}}, Rule{Lhs: "Z", Rhs: []string{}})
	}
	return c
}

// GenDPStress: grammars aimed at the reads / includes machinery: nullable
// nonterminals after a nonterminal transition (reads edges, possibly cyclic)
// followed by diverging contexts (includes).
func GenDPStress(r *rand.Rand, id string) *Case {
	c := &Case{ID: id, Family: "dp", Start: "S", Types: map[string]string{}}
	ts := []string{"a", "b", "c", "d"}
	for _, t := range ts {
		c.Tokens = append(c.Tokens, Tok{Name: t})
	}
	pickT := func() string { return ts[r.Intn(len(ts))] }
	nl := []string{"A", "B", "C"}
	pickN := func() string { return nl[r.Intn(len(nl))] }
	nS := 1 + r.Intn(3)
	for i := 0; i < nS; i++ {
		n := 1 + r.Intn(3)
		var rhs []string
		for j := 0; j < n; j++ {
			if r.Intn(3) == 0 {
				rhs = append(rhs, pickT())
			} else {
				rhs = append(rhs, []string{"X", "X", "A", "B", "C"}[r.Intn(5)])
			}
		}
		c.Rules = append(c.Rules, Rule{Lhs: "S", Rhs: rhs})
	}
	nX := 2 + r.Intn(3)
	for i := 0; i < nX; i++ {
		n := r.Intn(4)
		var rhs []string
		for j := 0; j < n; j++ {
			if r.Intn(5) == 0 {
				rhs = append(rhs, pickT())
			} else {
				rhs = append(rhs, []string{"X", "A", "B", "C"}[r.Intn(4)])
			}
		}
		c.Rules = append(c.Rules, Rule{Lhs: "X", Rhs: rhs})
	}
	for _, n := range nl {
		c.Rules = append(c.Rules, Rule{Lhs: n, Rhs: []string{}})
		if r.Intn(2) == 0 {
			c.Rules = append(c.Rules, Rule{Lhs: n, Rhs: []string{pickT()}})
		}
		if r.Intn(3) == 0 {
			c.Rules = append(c.Rules, Rule{Lhs: n, Rhs: []string{pickN(), pickT()}})
		}
	}
	// X must be productive: it is, through an empty or all-nullable alternative, or add one
	p := productiveSet(c)
	if !p["X"] {
		c.Rules = append(c.Rules, Rule{Lhs: "X", Rhs: []string{pickT()}})
	}
	p = productiveSet(c)
	if !p["S"] {
		c.Rules = append(c.Rules, Rule{Lhs: "S", Rhs: []string{pickT()}})
	}
	return c
}

// GenLALRFamily: the classic "same core, different context" shape, randomly
// instantiated: S -> x_i N_j y_k with N_j -> w for a shared w.  Produces
// LALR(1) grammars that are not SLR(1), LR(1) grammars that are not LALR(1),
// and plain conflicts, depending on the draw.
func GenLALRFamily(r *rand.Rand, id string) *Case {
	c := &Case{ID: id, Family: "ctx", Start: "S", Types: map[string]string{}}
	ts := []string{"a", "b", "c", "d", "e"}
	for _, t := range ts {
		c.Tokens = append(c.Tokens, Tok{Name: t})
	}
	ns := []string{"A", "B"}
	nAlt := 2 + r.Intn(4)
	seen := map[string]bool{}
	for i := 0; i < nAlt; i++ {
		var rhs []string
		if r.Intn(4) != 0 {
			rhs = append(rhs, []string{"a", "b"}[r.Intn(2)])
		}
		rhs = append(rhs, ns[r.Intn(2)])
		if r.Intn(4) != 0 {
			rhs = append(rhs, []string{"d", "e"}[r.Intn(2)])
		}
		key := strings.Join(rhs, " ")
		if seen[key] {
			continue
		}
		seen[key] = true
		c.Rules = append(c.Rules, Rule{Lhs: "S", Rhs: rhs})
	}
	w := [][]string{{"c"}, {"c", "c"}, {}, {"C"}}[r.Intn(4)]
	order := r.Perm(2)
	for _, i := range order {
		c.Rules = append(c.Rules, Rule{Lhs: ns[i], Rhs: append([]string{}, w...)})
	}
	usesC := false
	for _, s := range w {
		if s == "C" {
			usesC = true
		}
	}
	if usesC {
		c.Rules = append(c.Rules, Rule{Lhs: "C", Rhs: []string{"c"}})
		if r.Intn(2) == 0 {
			c.Rules = append(c.Rules, Rule{Lhs: "C", Rhs: []string{}})
		}
	}
	// both A and B must be used, otherwise rule-less/unused is fine (still usable)
	return c
}

// GenExpr: operator grammars with precedence declarations (for C04 and the
// run campaigns).  levels: number of binary precedence levels.
func GenExpr(r *rand.Rand, id string) *Case {
	c := &Case{ID: id, Family: "expr", Start: "E", Types: map[string]string{}}
	ops := []string{"'+'", "'-'", "'*'", "'/'", "'^'", "'<'", "'='", "'&'"}
	r.Shuffle(len(ops), func(i, j int) { ops[i], ops[j] = ops[j], ops[i] })
	nlev := 1 + r.Intn(4)
	oi := 0
	var binops []string
	for l := 0; l < nlev; l++ {
		pl := PrecLine{Assoc: []string{"left", "right", "nonassoc"}[r.Intn(3)]}
		m := 1 + r.Intn(2)
		for j := 0; j < m && oi < len(ops); j++ {
			pl.Syms = append(pl.Syms, ops[oi])
			binops = append(binops, ops[oi])
			oi++
		}
		c.Prec = append(c.Prec, pl)
	}
	unary := r.Intn(2) == 0
	if unary {
		c.Tokens = append(c.Tokens, Tok{Name: "UMINUS"})
		// unary level: anywhere among the levels
		pos := r.Intn(len(c.Prec) + 1)
		pl := PrecLine{Assoc: []string{"left", "right", "nonassoc"}[r.Intn(3)], Syms: []string{"UMINUS"}}
		c.Prec = append(c.Prec[:pos], append([]PrecLine{pl}, c.Prec[pos:]...)...)
	}
	c.Tokens = append(c.Tokens, Tok{Name: "n"})
	for _, op := range binops {
		c.Rules = append(c.Rules, Rule{Lhs: "E", Rhs: []string{"E", op, "E"}})
	}
	if unary {
		c.Rules = append(c.Rules, Rule{Lhs: "E", Rhs: []string{"'~'", "E"}, Prec: "UMINUS"})
	}
	if r.Intn(2) == 0 {
		c.Rules = append(c.Rules, Rule{Lhs: "E", Rhs: []string{"'('", "E", "')'"}})
	}
	if r.Intn(3) == 0 {
		// a postfix operator: on a level of its own or sharing the level (and associativity) of a binary operator
		if r.Intn(2) == 0 || len(c.Prec) == 0 {
			pos := r.Intn(len(c.Prec) + 1)
			pl := PrecLine{Assoc: []string{"left", "right", "nonassoc"}[r.Intn(3)], Syms: []string{"'!'"}}
			c.Prec = append(c.Prec[:pos], append([]PrecLine{pl}, c.Prec[pos:]...)...)
		} else {
			k := r.Intn(len(c.Prec))
			c.Prec[k].Syms = append(c.Prec[k].Syms, "'!'")
		}
		c.Rules = append(c.Rules, Rule{Lhs: "E", Rhs: []string{"E", "'!'"}})
	}
	if r.Intn(4) == 0 && len(binops) > 0 {
		// a binary operator token that is also a prefix operator, the prefix rule taking the token's own precedence
		c.Rules = append(c.Rules, Rule{Lhs: "E", Rhs: []string{binops[r.Intn(len(binops))], "E"}})
	}
	if r.Intn(4) == 0 {
		// a mixfix rule whose two operator tokens sit on different levels (its precedence is that of the last one)
		for _, t := range []string{"'?'", "':'"} {
			pos := r.Intn(len(c.Prec) + 1)
			pl := PrecLine{Assoc: []string{"left", "right", "nonassoc"}[r.Intn(3)], Syms: []string{t}}
			c.Prec = append(c.Prec[:pos], append([]PrecLine{pl}, c.Prec[pos:]...)...)
		}
		c.Rules = append(c.Rules, Rule{Lhs: "E", Rhs: []string{"E", "'?'", "E", "':'", "E"}})
	}
	c.Rules = append(c.Rules, Rule{Lhs: "E", Rhs: []string{"n"}})
	r.Shuffle(len(c.Rules), func(i, j int) { c.Rules[i], c.Rules[j] = c.Rules[j], c.Rules[i] })
	return c
}

// ---------------------------------------------------------------------------
// Corpus: /verif/corpus/*.g, a small line format
//
//	# comment
//	tokens: a b '+'
//	left: '+' '-'        (also right:, nonassoc:)
//	start: S
//	S -> a A d | b A e
//	A -> c %prec '+'
//	B ->                 (empty alternative)
func LoadCorpusFile(path string) (*Case, error) {
	f, err := os.Open(path)
	if err != nil {
		return nil, err
	}
	defer f.Close()
	base := strings.TrimSuffix(filepath.Base(path), ".g")
	c := &Case{ID: "corpus-" + base, Family: "corpus", Types: map[string]string{}}
	sc := bufio.NewScanner(f)
	for sc.Scan() {
		line := strings.TrimSpace(sc.Text())
		if line == "" || strings.HasPrefix(line, "#") {
			continue
		}
		if i := strings.Index(line, "->"); i > 0 {
			lhs := strings.TrimSpace(line[:i])
			for _, alt := range strings.Split(line[i+2:], "|") {
				fs := strings.Fields(alt)
				ru := Rule{Lhs: lhs}
				for j := 0; j < len(fs); j++ {
					if fs[j] == "%prec" && j+1 < len(fs) {
						ru.Prec = fs[j+1]
						j++
					} else {
						ru.Rhs = append(ru.Rhs, fs[j])
					}
				}
				c.Rules = append(c.Rules, ru)
			}
			continue
		}
		if i := strings.Index(line, ":"); i > 0 {
			key := strings.TrimSpace(line[:i])
			fs := strings.Fields(line[i+1:])
			switch key {
			case "tokens":
				for _, s := range fs {
					if isLitSym(s) {
						c.Tokens = append(c.Tokens, Tok{Name: s[1 : len(s)-1], Lit: true})
					} else {
						c.Tokens = append(c.Tokens, Tok{Name: s})
					}
				}
			case "left", "right", "nonassoc":
				c.Prec = append(c.Prec, PrecLine{Assoc: key, Syms: fs})
			case "start":
				c.Start = fs[0]
			default:
				return nil, fmt.Errorf("%s: unknown key %q", path, key)
			}
			continue
		}
		return nil, fmt.Errorf("%s: cannot parse %q", path, line)
	}
	if c.Start == "" && len(c.Rules) > 0 {
		c.Start = c.Rules[0].Lhs
	}
	return c, nil
}

func LoadCorpus(dir string) ([]*Case, error) {
	files, _ := filepath.Glob(filepath.Join(dir, "*.g"))
	sort.Strings(files)
	var res []*Case
	for _, f := range files {
		c, err := LoadCorpusFile(f)
		if err != nil {
			return nil, err
		}
		res = append(res, c)
	}
	return res, nil
}

// GenFeature: grammars that vary the *surface* features the code generators
// have to cope with (C16): identifier shapes, every printable ASCII literal,
// rule lengths 0..6, tagged/untagged mixes, with/without precedence.
// Names avoid Go/TypeScript keywords, predeclared identifiers and the
// identifiers the templates themselves declare (a clash there is the user's
// naming problem, as with yacc's yy prefix).
func GenFeature(r *rand.Rand, id string, ctrl bool) *Case {
	c := &Case{ID: id, Family: "feature", Types: map[string]string{}}
	letters := "abcdefghijklmnopqrstuvwxyzABCDEFGHIJKLMNOPQRSTUVWXYZ"
	mkName := func(prefix string, i int) string {
		n := prefix
		switch r.Intn(5) {
		case 0:
			n += fmt.Sprintf("_%d", i)
		case 1:
			n += fmt.Sprintf("%d_%c", i, letters[r.Intn(len(letters))])
		case 2:
			n = "_" + n + fmt.Sprintf("%d", i)
		case 3:
			n += fmt.Sprintf("%c%c_%d", letters[r.Intn(len(letters))], letters[r.Intn(len(letters))], i)
		case 4:
			n += fmt.Sprintf("é%d", i) // a non-ASCII letter
		}
		return n
	}
	nT := 1 + r.Intn(4)
	var ts []string
	for i := 0; i < nT; i++ {
		name := mkName("Tk", i)
		c.Tokens = append(c.Tokens, Tok{Name: name})
		ts = append(ts, name)
	}
	// literals: printable ASCII except ' and \ (yaccgo's lexer has no way to write them plainly)
	nL := 1 + r.Intn(6)
	seen := map[byte]bool{}
	for i := 0; i < nL; i++ {
		ch := byte(33 + r.Intn(94))
		if ctrl && r.Intn(12) == 0 {
			ch = []byte{'\n', '\t'}[r.Intn(2)] // the lexer takes any single character between the quotes
		}
		if ch == '\'' || ch == '\\' || seen[ch] {
			continue
		}
		seen[ch] = true
		s := "'" + string(ch) + "'"
		ts = append(ts, s)
		if r.Intn(3) == 0 {
			c.Tokens = append(c.Tokens, Tok{Name: string(ch), Lit: true})
		}
	}
	nN := 1 + r.Intn(4)
	var nts []string
	for i := 0; i < nN; i++ {
		nts = append(nts, mkName("Nt", i))
	}
	c.Start = nts[0]
	for i, nt := range nts {
		nalt := 1 + r.Intn(3)
		for a := 0; a < nalt; a++ {
			n := r.Intn(7)
			var rhs []string
			for j := 0; j < n; j++ {
				if r.Intn(3) != 0 || i == len(nts)-1 {
					rhs = append(rhs, ts[r.Intn(len(ts))])
				} else {
					rhs = append(rhs, nts[i+1+r.Intn(len(nts)-i-1)]) // only later nonterminals: productive, no cycles
				}
			}
			c.Rules = append(c.Rules, Rule{Lhs: nt, Rhs: rhs})
		}
	}
	// make every nonterminal reachable-ish and used at least once is not required
	if r.Intn(2) == 0 {
		perm := r.Perm(len(ts))
		nl := 1 + r.Intn(3)
		pi := 0
		for l := 0; l < nl && pi < len(perm); l++ {
			pl := PrecLine{Assoc: []string{"left", "right", "nonassoc"}[r.Intn(3)]}
			for j := 0; j < 1+r.Intn(2) && pi < len(perm); j++ {
				pl.Syms = append(pl.Syms, ts[perm[pi]])
				pi++
			}
			c.Prec = append(c.Prec, pl)
		}
	}
	return c
}

// GenLong: grammars with long right-hand sides (10-14 symbols) so that $10, $11, ... occur,
// with different value tags on neighbouring positions (C07 "rules of every length").
func GenLong(r *rand.Rand, id string) *Case {
	c := &Case{ID: id, Family: "long", Start: "S", Types: map[string]string{}}
	ts := []string{"a", "b", "c", "d"}
	for _, t := range ts {
		c.Tokens = append(c.Tokens, Tok{Name: t})
	}
	n := 10 + r.Intn(5)
	if r.Intn(3) == 0 {
		n = 16 + r.Intn(6) // dot positions beyond 15
	}
	var rhs []string
	for i := 0; i < n; i++ {
		if r.Intn(4) == 0 {
			rhs = append(rhs, "A")
		} else {
			rhs = append(rhs, ts[r.Intn(len(ts))])
		}
	}
	// positions 1 and 10 hold two different tokens (so that $1 and $10 can carry different value tags)
	rhs[0], rhs[9] = "a", "b"
	c.Rules = append(c.Rules, Rule{Lhs: "S", Rhs: rhs})
	c.Rules = append(c.Rules, Rule{Lhs: "S", Rhs: []string{ts[r.Intn(4)], "A"}})
	c.Rules = append(c.Rules, Rule{Lhs: "A", Rhs: []string{ts[r.Intn(4)]}})
	if r.Intn(2) == 0 {
		c.Rules = append(c.Rules, Rule{Lhs: "A", Rhs: []string{}})
	}
	return c
}

// GenBig: m disjoint copies (distinct nonterminals, shared terminals) of a statement/expression
// grammar behind distinct leading keywords: LALR(1), conflict-free, 40*m-ish states.  Makes state
// numbers cross 100, 200, ... (codes and offsets that are only safe for small automata show here).
func GenBig(r *rand.Rand, id string, m int) *Case {
	c := &Case{ID: id, Family: "big", Start: "S", Types: map[string]string{}}
	for _, t := range []string{"id", "num", "IF", "THEN", "ELSE"} {
		c.Tokens = append(c.Tokens, Tok{Name: t})
	}
	for i := 1; i <= m; i++ {
		k := fmt.Sprintf("K%d", i)
		c.Tokens = append(c.Tokens, Tok{Name: k})
		sfx := fmt.Sprint(i)
		P, St, E, Tm, F, Args := "P"+sfx, "St"+sfx, "E"+sfx, "Tm"+sfx, "F"+sfx, "Args"+sfx
		c.Rules = append(c.Rules,
			Rule{Lhs: "S", Rhs: []string{k, P}},
			Rule{Lhs: P, Rhs: []string{}},
			Rule{Lhs: P, Rhs: []string{P, St, "';'"}},
			Rule{Lhs: St, Rhs: []string{"id", "'='", E}},
			Rule{Lhs: St, Rhs: []string{"IF", E, "THEN", St, "ELSE", St}},
			Rule{Lhs: St, Rhs: []string{"'{'", P, "'}'"}},
			Rule{Lhs: E, Rhs: []string{E, "'+'", Tm}},
			Rule{Lhs: E, Rhs: []string{E, "'-'", Tm}},
			Rule{Lhs: E, Rhs: []string{Tm}},
			Rule{Lhs: Tm, Rhs: []string{Tm, "'*'", F}},
			Rule{Lhs: Tm, Rhs: []string{F}},
			Rule{Lhs: F, Rhs: []string{"'('", E, "')'"}},
			Rule{Lhs: F, Rhs: []string{"'-'", F}},
			Rule{Lhs: F, Rhs: []string{"id"}},
			Rule{Lhs: F, Rhs: []string{"num"}},
			Rule{Lhs: F, Rhs: []string{"id", "'('", Args, "')'"}},
			Rule{Lhs: F, Rhs: []string{"id", "'['", E, "']'"}},
			Rule{Lhs: Args, Rhs: []string{}},
			Rule{Lhs: Args, Rhs: []string{E}},
			Rule{Lhs: Args, Rhs: []string{Args, "','", E}},
		)
	}
	return c
}

// GenRing: k mutually right-recursive nonterminals entered from several contexts: the includes
// relation has a non-trivial strongly connected component fed from outside (what Digraph's SCC
// handling is for).
func GenRing(r *rand.Rand, id string) *Case {
	c := &Case{ID: id, Family: "ring", Start: "S", Types: map[string]string{}}
	k := 3 + r.Intn(3)
	var ring []string
	for i := 0; i < k; i++ {
		ring = append(ring, fmt.Sprintf("R%d", i))
		c.Tokens = append(c.Tokens, Tok{Name: fmt.Sprintf("x%d", i)}, Tok{Name: fmt.Sprintf("e%d", i)}, Tok{Name: fmt.Sprintf("p%d", i)})
	}
	for i := 0; i < k; i++ {
		if i == 0 {
			c.Rules = append(c.Rules, Rule{Lhs: "S", Rhs: []string{ring[0], "e0"}})
		} else if r.Intn(4) != 0 {
			c.Rules = append(c.Rules, Rule{Lhs: "S", Rhs: []string{fmt.Sprintf("p%d", i), ring[i], fmt.Sprintf("e%d", i)}})
		}
	}
	for i := 0; i < k; i++ {
		nxt := ring[(i+1)%k]
		c.Rules = append(c.Rules, Rule{Lhs: ring[i], Rhs: []string{fmt.Sprintf("x%d", i), nxt}})
		if i == k-1 || r.Intn(3) == 0 {
			c.Rules = append(c.Rules, Rule{Lhs: ring[i], Rhs: []string{fmt.Sprintf("x%d", i)}})
		}
	}
	return c
}

func renameSym(c *Case, from, to string) {
	if from == "" || from == to || c.isNT(to) || c.isTerm(to) {
		return
	}
	rn := func(s string) string {
		if s == from {
			return to
		}
		return s
	}
	c.Start = rn(c.Start)
	for i := range c.Rules {
		c.Rules[i].Lhs = rn(c.Rules[i].Lhs)
		for j := range c.Rules[i].Rhs {
			c.Rules[i].Rhs[j] = rn(c.Rules[i].Rhs[j])
		}
	}
	if t, ok := c.Types[from]; ok {
		delete(c.Types, from)
		c.Types[to] = t
	}
}

// GenSessionProbe: a counter grammar made for C15: the empty rule relies on the zero default of $$, the
// recursive rule computes $$ and then gives up (panics) at a certain count -- an abandoned parse that leaves
// whatever the parser keeps between reductions in a used state.
func GenSessionProbe(r *rand.Rand, id string) *Case {
	c := &Case{ID: id, Family: "probe", Start: "S", Types: map[string]string{"S": "ia", "L": "ia"}, Valued: true}
	c.Tokens = []Tok{{Name: "a", Tag: "ib"}, {Name: "b"}}
	k := 3 + r.Intn(3)
	c.Rules = []Rule{
		{Lhs: "S", Rhs: []string{"L", "';'"}, Act: Act{Kind: "int", Args: []int{1}, Coefs: []int{0, 1}}},
		{Lhs: "L", Rhs: []string{}, Act: Act{Kind: "log"}},
		{Lhs: "L", Rhs: []string{"L", "a"}, Act: Act{Kind: "int", Args: []int{1}, Coefs: []int{1, 1}, Abort: true, AbortEq: k}},
	}
	if r.Intn(2) == 0 {
		// a second list inside the rule: its empty rule is reduced right after another reduction computed a value
		c.Rules = append(c.Rules, Rule{Lhs: "L", Rhs: []string{"L", "b", "L"}, Act: Act{Kind: "int", Args: []int{1, 3}, Coefs: []int{0, 1, 1}}})
	}
	return c
}

// GenOpts: conflict-free grammars in the "options defined after use" style: nonterminals that are nullable
// only through other nonterminals whose empty rules come LATER in the file, standing where a look-ahead has
// to pass through them (nullable computation needs several passes in rule order).
func GenOpts(r *rand.Rand, id string) *Case {
	c := &Case{ID: id, Family: "opts", Start: "S", Types: map[string]string{}}
	n := 2 + r.Intn(3)
	c.Tokens = append(c.Tokens, Tok{Name: "h"}, Tok{Name: "x"})
	c.Rules = append(c.Rules, Rule{Lhs: "S", Rhs: []string{"H", "O0", "x"}})
	c.Rules = append(c.Rules, Rule{Lhs: "H", Rhs: []string{"h"}})
	// O0 -> O1 O2 ... (nested groups), leaves Pk -> | tk, all defined after use
	depth := 1 + r.Intn(2)
	var leaves []string
	var build func(name string, d int)
	cnt := 0
	build = func(name string, d int) {
		k := 2 + r.Intn(2)
		if k > n {
			k = n
		}
		var parts []string
		for i := 0; i < k; i++ {
			cnt++
			parts = append(parts, fmt.Sprintf("P%d", cnt))
		}
		c.Rules = append(c.Rules, Rule{Lhs: name, Rhs: parts})
		for _, pn := range parts {
			if d < depth && r.Intn(2) == 0 {
				build(pn, d+1)
			} else {
				leaves = append(leaves, pn)
			}
		}
	}
	build("O0", 0)
	for i, l := range leaves {
		t := fmt.Sprintf("t%d", i)
		c.Tokens = append(c.Tokens, Tok{Name: t})
		c.Rules = append(c.Rules, Rule{Lhs: l, Rhs: []string{}}, Rule{Lhs: l, Rhs: []string{t}})
	}
	return c
}

// GenTrie: a keyword trie S -> w1 | w2 | ... (words spelled token by token): conflict-free, and almost every one
// of its 250-400 states is entered by shifting a terminal (large state numbers appear as shift entries).
func GenTrie(r *rand.Rand, id string) *Case {
	c := &Case{ID: id, Family: "trie", Start: "S", Types: map[string]string{}}
	letters := []string{"a", "b", "c", "d", "e", "f"}
	for _, l := range letters {
		c.Tokens = append(c.Tokens, Tok{Name: l})
	}
	seen := map[string]bool{}
	target := 170 + r.Intn(60)
	for len(c.Rules) < target {
		n := 3 + r.Intn(3)
		var w []string
		for i := 0; i < n; i++ {
			w = append(w, letters[r.Intn(len(letters))])
		}
		k := strings.Join(w, "")
		if seen[k] {
			continue
		}
		seen[k] = true
		c.Rules = append(c.Rules, Rule{Lhs: "S", Rhs: w})
	}
	return c
}

func idHash(s string) int {
	h := 0
	for _, ch := range s {
		h = (h*31 + int(ch)) % 1000003
	}
	return h
}

// GenCtx2: several left contexts (prefix tokens) share a nonterminal X whose bodies are single tokens; in each
// context X is followed by one to three different tokens, and some contexts also use X's body tokens directly
// (so the states after a body token are shared between "X -> t ." and "S -> p t . g").  Reduce points with
// several lookbacks and follow sets of sizes 1..4: the shape where shared set storage goes wrong.
func GenCtx2(r *rand.Rand, id string) *Case {
	c := &Case{ID: id, Family: "ctx2", Start: "S", Types: map[string]string{}}
	npre := 2 + r.Intn(3)
	nbody := 2 + r.Intn(2)
	var pre, body []string
	for i := 0; i < npre; i++ {
		pre = append(pre, fmt.Sprintf("p%d", i))
	}
	for i := 0; i < nbody; i++ {
		body = append(body, fmt.Sprintf("t%d", i))
	}
	for _, s := range append(append([]string{}, pre...), body...) {
		c.Tokens = append(c.Tokens, Tok{Name: s})
	}
	fcount := 0
	newF := func() string {
		f := fmt.Sprintf("f%d", fcount)
		fcount++
		c.Tokens = append(c.Tokens, Tok{Name: f})
		return f
	}
	for i, p := range pre {
		nf := 1 + r.Intn(3)
		if i == 0 {
			nf = 3
		}
		for j := 0; j < nf; j++ {
			c.Rules = append(c.Rules, Rule{Lhs: "S", Rhs: []string{p, "X", newF()}})
		}
		if i > 0 && r.Intn(3) != 0 {
			c.Rules = append(c.Rules, Rule{Lhs: "S", Rhs: []string{p, body[r.Intn(len(body))], newF()}})
		}
	}
	for _, b := range body {
		c.Rules = append(c.Rules, Rule{Lhs: "X", Rhs: []string{b}})
	}
	if r.Intn(3) == 0 {
		c.Rules = append(c.Rules, Rule{Lhs: "X", Rhs: []string{}})
	}
	r.Shuffle(len(c.Rules), func(i, j int) { c.Rules[i], c.Rules[j] = c.Rules[j], c.Rules[i] })
	return c
}
