package main

// parseobs: the real grammar-file parser (parser.Parse) on many short texts; records the token stream
// (hook VerifLex) and the syntax tree it built, for comparison with spec/FileParse.tla (spec/ConfParse.tla).

import (
	"flag"
	"fmt"
	"math/rand"
	"path/filepath"
	"strings"
	"time"

	parser "github.com/acekingke/yaccgo/Parser"
)

type pTok struct {
	Kind  string   `json:"kind"`
	Val   string   `json:"val"`
	Line  int      `json:"line"`
	Chars []string `json:"chars"`
}
type pIdent struct {
	Name  string `json:"name"`
	Value int    `json:"value"`
	Tag   string `json:"tag"`
	Alias string `json:"alias"`
}
type pPrec struct {
	Name  string `json:"name"`
	Assoc int    `json:"assoc"`
}
type pType struct {
	Tag  string `json:"tag"`
	Name string `json:"name"`
}
type pElem struct {
	T int    `json:"t"`
	E string `json:"e"`
}
type pRule struct {
	Left  string  `json:"left"`
	Line  int     `json:"line"`
	Right []pElem `json:"right"`
	Prec  string  `json:"prec"`
}
type pAST struct {
	OK        bool       `json:"ok"`
	Code      string     `json:"code"`
	Union     string     `json:"union"`
	Start     string     `json:"start"`
	TokenDefs [][]pIdent `json:"tokendefs"`
	PrecDefs  [][]pPrec  `json:"precdefs"`
	TypeDefs  []pType    `json:"typedefs"`
	Rules     []pRule    `json:"rules"`
}
type parseObs struct {
	Text string `json:"text"`
	Toks []pTok `json:"toks"`
	AST  pAST   `json:"ast"`
	Src  string `json:"src"`
}

func emptyAST() pAST {
	return pAST{TokenDefs: [][]pIdent{}, PrecDefs: [][]pPrec{}, TypeDefs: []pType{}, Rules: []pRule{}}
}

func realAST(text string) (pAST, bool) {
	type res struct {
		root *parser.RootNode
		err  error
	}
	ch := make(chan res, 1)
	go func() {
		defer func() {
			if r := recover(); r != nil {
				ch <- res{nil, fmt.Errorf("panic: %v", r)}
			}
		}()
		var rr res
		_, _, _ = capture(func() { rr.root, rr.err = parser.Parse(text) })
		ch <- rr
	}()
	select {
	case r := <-ch:
		a := emptyAST()
		if r.err != nil || r.root == nil {
			return a, true
		}
		d, ok1 := r.root.Declare.(*parser.DeclareNode)
		ru, ok2 := r.root.Rules.(*parser.RuleDefNode)
		if !ok1 || !ok2 {
			return a, true
		}
		a.OK = true
		a.Code, a.Union, a.Start = d.CodeList, d.Union, d.StartSym
		for _, td := range d.TokenDefList {
			l := []pIdent{}
			for _, id := range td.IdentifyList {
				l = append(l, pIdent{id.Name, id.Value, id.Tag, id.Alias})
			}
			a.TokenDefs = append(a.TokenDefs, l)
		}
		for _, pl := range d.PrecDefList {
			l := []pPrec{}
			for _, pd := range pl {
				l = append(l, pPrec{pd.IdName, int(pd.AssocType)})
			}
			a.PrecDefs = append(a.PrecDefs, l)
		}
		for _, t := range d.TypeDefList {
			a.TypeDefs = append(a.TypeDefs, pType{t.Tag, t.IdName})
		}
		for _, rd := range ru.RuleDefList {
			pr := pRule{Left: rd.LeftPart, Line: rd.LineNo, Prec: rd.PrecSym, Right: []pElem{}}
			for _, e := range rd.RightPart {
				pr.Right = append(pr.Right, pElem{int(e.ElemType), e.Element})
			}
			a.Rules = append(a.Rules, pr)
		}
		return a, true
	case <-time.After(10 * time.Second):
		return emptyAST(), false
	}
}

var parseFragments = []string{
	" ", " ", "\n", "\n", "%%", "%%", "%{ code %}", "%token", "%token", "%type", "%union { v int }", "%left", "%right", "%nonassoc", "%prec",
	"%precedence", "%start", "<", ">", "<tag>", ":", ":", ";", ";", "|", "|", "'a'", "'+'", "\"alias\"", "x", "y", "Expr", "NUM", "ID", "7", "300", "-", "-5",
	"{ act }", "{ $$ = $1 }", "/* c */", "// c\n", "@", "$$", "a :", "a : b", "| c", "%token <t> A B 5", "%left '+' '-'", "%type <t> E F", "%start a",
}

func cmdParseObs(args []string) {
	fs := flag.NewFlagSet("parseobs", flag.ExitOnError)
	var p popFlags
	p.register(fs)
	out := fs.String("out", ".", "out dir")
	shards := fs.Int("shards", 16, "shards")
	ntexts := fs.Int("ntexts", 2000, "random fragment texts")
	maxfrag := fs.Int("maxfrag", 14, "fragments per text")
	nfile := fs.Int("nfile", 400, "whole / cut / edited rendered grammar texts")
	klen := fs.Int("klen", 3, "token-kind scenarios up to this length")
	fs.Parse(args)
	r := rand.New(rand.NewSource(p.seed*19 + 5))
	obs := make([][]parseObs, *shards)
	n, timeouts := 0, 0
	add := func(text, src string) {
		if !isASCIItext(text) {
			return
		}
		o := parseObs{Text: text, Src: src, Toks: []pTok{}}
		for _, t := range parser.VerifLex(text) {
			chars := []string{}
			for _, c := range t.Value {
				chars = append(chars, string(c))
			}
			v := t.Value
			if string(t.Kind) == "Error" {
				v, chars = "", []string{}
			}
			o.Toks = append(o.Toks, pTok{string(t.Kind), v, t.Line, chars})
		}
		ast, ok := realAST(text)
		if !ok {
			timeouts++
			return
		}
		o.AST = ast
		obs[n%*shards] = append(obs[n%*shards], o)
		n++
	}
	for i := 0; i < *ntexts; i++ {
		k := 1 + r.Intn(*maxfrag)
		var sb strings.Builder
		for j := 0; j < k; j++ {
			sb.WriteString(parseFragments[r.Intn(len(parseFragments))])
			sb.WriteString([]string{" ", " ", "\n", ""}[r.Intn(4)])
		}
		add(sb.String(), "random")
	}
	if *klen > 0 {
		var rec func(cur []string)
		rec = func(cur []string) {
			for _, m := range []string{"eof", "error"} {
				add(concretise(cur, m), "kinds")
			}
			if len(cur) == *klen {
				return
			}
			for _, k := range kindOrder {
				rec(append(cur, k))
			}
		}
		rec(nil)
	}
	cases := p.cases()
	var texts []string
	for _, c := range cases {
		Valuate(c, r, r.Intn(2) == 0)
		t := c.Render(RenderOpts{Lang: "go", Prologue: "package main", Union: c.unionText("go")})
		if isASCIItext(t) && len(t) < 1500 {
			texts = append(texts, t)
		}
	}
	for i := 0; i < *nfile && len(texts) > 0; i++ {
		t := texts[r.Intn(len(texts))]
		switch r.Intn(4) {
		case 0:
			add(t, "whole")
		case 1:
			add(t[:r.Intn(len(t)+1)], "prefix")
		case 2:
			pos := r.Intn(len(t))
			add(t[:pos]+parseFragments[r.Intn(len(parseFragments))]+t[pos:], "insert")
		case 3:
			a, b := r.Intn(len(t)), r.Intn(len(t))
			if a > b {
				a, b = b, a
			}
			if b-a > 60 {
				b = a + 60
			}
			add(t[:a]+t[b:], "cut")
		}
	}
	for s := range obs {
		if obs[s] == nil {
			obs[s] = []parseObs{}
		}
		writeJSON(filepath.Join(*out, fmt.Sprintf("parse-%d.json", s)), obs[s])
	}
	fmt.Printf("parseobs: %d texts (%d skipped: parser did not return)\n", n, timeouts)
}
