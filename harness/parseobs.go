package main

// parseobs: the real grammar-file parser (parser.Parse) on many short texts; records the token stream
// (hook VerifLex) and the syntax tree it built, for comparison with spec/FileParse.tla (spec/ConfParse.tla).

import (
	"flag"
	"fmt"
	"math/rand"
	"os"
	"path/filepath"
	"sort"
	"strings"
	"time"

	parser "github.com/acekingke/yaccgo/Parser"
	symbol "github.com/acekingke/yaccgo/Symbol"
)

type pTok struct {
	Kind  string   `json:"kind"`
	Val   string   `json:"val"`
	Line  int      `json:"line"`
	Chars []string `json:"chars"`
}
type pIdent struct {
	Name  string `json:"name"`
	Value int    `json:"value"`
	Tag   string `json:"tag"`
	Alias string `json:"alias"`
}
type pPrec struct {
	Name  string `json:"name"`
	Assoc int    `json:"assoc"`
}
type pType struct {
	Tag  string `json:"tag"`
	Name string `json:"name"`
}
type pElem struct {
	T int    `json:"t"`
	E string `json:"e"`
}
type pRule struct {
	Left  string  `json:"left"`
	Line  int     `json:"line"`
	Right []pElem `json:"right"`
	Prec  string  `json:"prec"`
}
type pAST struct {
	OK        bool       `json:"ok"`
	Code      string     `json:"code"`
	Union     string     `json:"union"`
	Start     string     `json:"start"`
	TokenDefs [][]pIdent `json:"tokendefs"`
	PrecDefs  [][]pPrec  `json:"precdefs"`
	TypeDefs  []pType    `json:"typedefs"`
	Rules     []pRule    `json:"rules"`
}
type parseObs struct {
	Text string `json:"text"`
	Toks []pTok `json:"toks"`
	AST  pAST   `json:"ast"`
	Src  string `json:"src"`
	// what the visitors made of the syntax tree (spec/SymTab.tla): the symbols of the grammar handed to the LALR
	// construction, and per rule its precedence symbol
	Sym    pSymView `json:"sym"`
	Sorted []string `json:"sorted"` // every name of the syntax tree, in the order of Go's sort.Strings (TLA+ cannot compare strings)
}
type pSym struct {
	Name  string `json:"name"`
	Value int    `json:"value"`
	Tag   string `json:"tag"`
	NT    bool   `json:"nt"`
	Level int    `json:"level"` // 0: none
	Assoc int    `json:"assoc"` // 1 left, 2 right, 3 nonassoc, 0 none
}
type pSymRule struct {
	Lhs  string   `json:"lhs"`
	Rhs  []string `json:"rhs"`
	Prec string   `json:"prec"`
}
type pSymView struct {
	Outcome string     `json:"outcome"` // none (no syntax tree) | ok | undef | precundef | other
	Diag    string     `json:"diag"`
	Symbols []pSym     `json:"symbols"`
	Rules   []pSymRule `json:"rules"`
	Start   string     `json:"start"`
}

func emptySymView() pSymView {
	return pSymView{Outcome: "none", Symbols: []pSym{}, Rules: []pSymRule{}}
}

// symView runs the whole front end + construction on text and projects the grammar's symbols.
func symView(text string) pSymView {
	v := emptySymView()
	resetFlags()
	w, outcome, diag, _ := buildInProcess(text)
	v.Diag = diag
	if len(v.Diag) > 200 {
		v.Diag = v.Diag[:200]
	}
	switch {
	case outcome == "ok":
		v.Outcome = "ok"
	case outcome == "panic" && strings.HasPrefix(diag, "It's not define symbol"):
		v.Outcome = "undef"
		return v
	case outcome == "panic" && strings.HasPrefix(diag, "prec symbol "):
		v.Outcome = "precundef"
		return v
	default:
		v.Outcome = "other"
		return v
	}
	root := w.VistorNode.(*parser.RootVistor)
	g := root.LALR1.G
	for _, sy := range g.Symbols {
		if sy.ID <= 1 {
			continue
		}
		ps := pSym{Name: sy.Name, Value: sy.Value, Tag: sy.Tag, NT: sy.IsNonTerminator}
		if sy.Prec > 0 {
			ps.Level = sy.Prec
			switch sy.PrecType {
			case symbol.LEFT:
				ps.Assoc = 1
			case symbol.RIGHT:
				ps.Assoc = 2
			default:
				ps.Assoc = 3
			}
		}
		v.Symbols = append(v.Symbols, ps)
	}
	for i := 1; i < len(g.ProductoinRules); i++ {
		pr := g.ProductoinRules[i]
		r := pSymRule{Lhs: pr.LeftPart.Name, Rhs: []string{}}
		for _, x := range pr.RighPart {
			r.Rhs = append(r.Rhs, x.Name)
		}
		if pr.PrecSymbol != nil {
			r.Prec = pr.PrecSymbol.Name
		}
		v.Rules = append(v.Rules, r)
	}
	if len(g.ProductoinRules) > 0 && len(g.ProductoinRules[0].RighPart) == 1 && g.ProductoinRules[0].RighPart[0] != nil {
		v.Start = g.ProductoinRules[0].RighPart[0].Name
	}
	return v
}

func astNames(a pAST) []string {
	seen := map[string]bool{}
	add := func(s string) {
		if s != "" {
			seen[s] = true
		}
	}
	for _, l := range a.TokenDefs {
		for _, id := range l {
			add(id.Name)
		}
	}
	for _, l := range a.PrecDefs {
		for _, pd := range l {
			add(pd.Name)
		}
	}
	for _, t := range a.TypeDefs {
		add(t.Name)
	}
	add(a.Start)
	for _, r := range a.Rules {
		add(r.Left)
		add(r.Prec)
		for _, e := range r.Right {
			if e.T == 1 {
				add(e.E)
			}
		}
	}
	res := []string{}
	for k := range seen {
		res = append(res, k)
	}
	sort.Strings(res)
	return res
}

func emptyAST() pAST {
	return pAST{TokenDefs: [][]pIdent{}, PrecDefs: [][]pPrec{}, TypeDefs: []pType{}, Rules: []pRule{}}
}

func realAST(text string) (pAST, bool) {
	type res struct {
		root *parser.RootNode
		err  error
	}
	ch := make(chan res, 1)
	go func() {
		defer func() {
			if r := recover(); r != nil {
				ch <- res{nil, fmt.Errorf("panic: %v", r)}
			}
		}()
		var rr res
		_, _, _ = capture(func() { rr.root, rr.err = parser.Parse(text) })
		ch <- rr
	}()
	select {
	case r := <-ch:
		a := emptyAST()
		if r.err != nil || r.root == nil {
			return a, true
		}
		d, ok1 := r.root.Declare.(*parser.DeclareNode)
		ru, ok2 := r.root.Rules.(*parser.RuleDefNode)
		if !ok1 || !ok2 {
			return a, true
		}
		a.OK = true
		a.Code, a.Union, a.Start = d.CodeList, d.Union, d.StartSym
		for _, td := range d.TokenDefList {
			l := []pIdent{}
			for _, id := range td.IdentifyList {
				l = append(l, pIdent{id.Name, id.Value, id.Tag, id.Alias})
			}
			a.TokenDefs = append(a.TokenDefs, l)
		}
		for _, pl := range d.PrecDefList {
			l := []pPrec{}
			for _, pd := range pl {
				l = append(l, pPrec{pd.IdName, int(pd.AssocType)})
			}
			a.PrecDefs = append(a.PrecDefs, l)
		}
		for _, t := range d.TypeDefList {
			a.TypeDefs = append(a.TypeDefs, pType{t.Tag, t.IdName})
		}
		for _, rd := range ru.RuleDefList {
			pr := pRule{Left: rd.LeftPart, Line: rd.LineNo, Prec: rd.PrecSym, Right: []pElem{}}
			for _, e := range rd.RightPart {
				pr.Right = append(pr.Right, pElem{int(e.ElemType), e.Element})
			}
			a.Rules = append(a.Rules, pr)
		}
		return a, true
	case <-time.After(10 * time.Second):
		return emptyAST(), false
	}
}

var parseFragments = []string{
	" ", " ", "\n", "\n", "%%", "%%", "%{ code %}", "%token", "%token", "%type", "%union { v int }", "%left", "%right", "%nonassoc", "%prec",
	"%precedence", "%start", "<", ">", "<tag>", ":", ":", ";", ";", "|", "|", "'a'", "'+'", "\"alias\"", "x", "y", "Expr", "NUM", "ID", "7", "300", "-", "-5",
	"{ act }", "{ $$ = $1 }", "/* c */", "// c\n", "@", "$$", "a :", "a : b", "| c", "%token <t> A B 5", "%left '+' '-'", "%type <t> E F", "%start a",
}

func cmdParseObs(args []string) {
	fs := flag.NewFlagSet("parseobs", flag.ExitOnError)
	var p popFlags
	p.register(fs)
	out := fs.String("out", ".", "out dir")
	shards := fs.Int("shards", 16, "shards")
	ntexts := fs.Int("ntexts", 2000, "random fragment texts")
	maxfrag := fs.Int("maxfrag", 14, "fragments per text")
	nfile := fs.Int("nfile", 400, "whole / cut / edited rendered grammar texts")
	klen := fs.Int("klen", 3, "token-kind scenarios up to this length")
	single := fs.String("single", "", "observe this one file only (replay)")
	fs.Parse(args)
	r := rand.New(rand.NewSource(p.seed*19 + 5))
	obs := make([][]parseObs, *shards)
	n, timeouts := 0, 0
	add := func(text, src string) {
		if !isASCIItext(text) {
			return
		}
		o := parseObs{Text: text, Src: src, Toks: []pTok{}}
		for _, t := range parser.VerifLex(text) {
			chars := []string{}
			for _, c := range t.Value {
				chars = append(chars, string(c))
			}
			v := t.Value
			if string(t.Kind) == "Error" {
				v, chars = "", []string{}
			}
			o.Toks = append(o.Toks, pTok{string(t.Kind), v, t.Line, chars})
		}
		ast, ok := realAST(text)
		if !ok {
			timeouts++
			return
		}
		o.AST = ast
		o.Sym, o.Sorted = emptySymView(), []string{}
		if ast.OK {
			o.Sym = symView(text)
			o.Sorted = astNames(ast)
		}
		obs[n%*shards] = append(obs[n%*shards], o)
		n++
	}
	if *single != "" {
		b, err := os.ReadFile(*single)
		if err != nil {
			die("%v", err)
		}
		add(string(b), "single")
		*ntexts, *klen, *nfile = 0, 0, 0
	}
	for i := 0; i < *ntexts; i++ {
		k := 1 + r.Intn(*maxfrag)
		var sb strings.Builder
		for j := 0; j < k; j++ {
			sb.WriteString(parseFragments[r.Intn(len(parseFragments))])
			sb.WriteString([]string{" ", " ", "\n", ""}[r.Intn(4)])
		}
		add(sb.String(), "random")
	}
	if *klen > 0 {
		var rec func(cur []string)
		rec = func(cur []string) {
			for _, m := range []string{"eof", "error"} {
				add(concretise(cur, m), "kinds")
			}
			if len(cur) == *klen {
				return
			}
			for _, k := range kindOrder {
				rec(append(cur, k))
			}
		}
		rec(nil)
	}
	cases := p.cases()
	var texts []string
	for _, c := range cases {
		Valuate(c, r, r.Intn(2) == 0)
		t := c.Render(RenderOpts{Lang: "go", Prologue: "package main", Union: c.unionText("go")})
		if isASCIItext(t) && len(t) < 1500 {
			texts = append(texts, t)
		}
	}
	for i := 0; i < *nfile && len(texts) > 0; i++ {
		t := texts[r.Intn(len(texts))]
		switch r.Intn(4) {
		case 0:
			add(t, "whole")
		case 1:
			add(t[:r.Intn(len(t)+1)], "prefix")
		case 2:
			pos := r.Intn(len(t))
			add(t[:pos]+parseFragments[r.Intn(len(parseFragments))]+t[pos:], "insert")
		case 3:
			a, b := r.Intn(len(t)), r.Intn(len(t))
			if a > b {
				a, b = b, a
			}
			if b-a > 60 {
				b = a + 60
			}
			add(t[:a]+t[b:], "cut")
		}
	}
	for s := range obs {
		if obs[s] == nil {
			obs[s] = []parseObs{}
		}
		writeJSON(filepath.Join(*out, fmt.Sprintf("parse-%d.json", s)), obs[s])
	}
	fmt.Printf("parseobs: %d texts (%d skipped: parser did not return)\n", n, timeouts)
}
