package main

// digobs: drive the real lalr.Digraph on enumerated relations and record the
// result for TLC (spec/ConfDigraph.tla).  Relations are built through the
// verif hook VerifRelation (the fields of Relation are unexported).

import (
	"flag"
	"fmt"
	"math/rand"
	"path/filepath"

	lalr "github.com/acekingke/yaccgo/LALR"
)

type digObs struct {
	N     int     `json:"n"`
	Rel   [][]int `json:"rel"` // pairs [x, y]
	FP    [][]int `json:"fp"`  // fp[x-1]
	F     [][]int `json:"f"`   // result f[x-1]
	Panic string  `json:"panic"`
}

func digOne(n int, rel [][]int, fp [][]int) (o digObs) {
	o.N, o.Rel, o.FP = n, rel, fp
	if o.Rel == nil {
		o.Rel = [][]int{}
	}
	o.F = make([][]int, n)
	for i := range o.F {
		o.F[i] = []int{}
	}
	defer func() {
		if r := recover(); r != nil {
			o.Panic = fmt.Sprint(r)
		}
	}()
	X := make([]int, n)
	Fp := map[int][]int{}
	F := map[int][]int{}
	for i := 0; i < n; i++ {
		X[i] = i + 1
		Fp[i+1] = append([]int{}, fp[i]...) // exact-capacity copies, as fresh sets
		F[i+1] = []int{}
	}
	var R []lalr.Relation
	for _, p := range rel {
		R = append(R, lalr.VerifRelation(p[0], p[1]))
	}
	lalr.Digraph(X, R, Fp, &F)
	for i := 0; i < n; i++ {
		if F[i+1] != nil {
			o.F[i] = append([]int{}, F[i+1]...)
		}
	}
	return
}

func cmdDigObs(args []string) {
	fs := flag.NewFlagSet("digobs", flag.ExitOnError)
	out := fs.String("out", ".", "output dir")
	shards := fs.Int("shards", 16, "shards")
	seed := fs.Int64("seed", 1, "seed")
	maxn := fs.Int("maxn", 3, "all relations on up to this many nodes")
	nrand := fs.Int("nrand", 500, "random larger graphs")
	fs.Parse(args)
	obs := make([][]digObs, *shards)
	cnt := 0
	add := func(o digObs) {
		obs[cnt%*shards] = append(obs[cnt%*shards], o)
		cnt++
	}
	subsets := [][]int{{}, {10}, {11}, {10, 11}}
	for n := 1; n <= *maxn; n++ {
		pairs := [][]int{}
		for x := 1; x <= n; x++ {
			for y := 1; y <= n; y++ {
				pairs = append(pairs, []int{x, y})
			}
		}
		for code := 0; code < 1<<uint(len(pairs)); code++ {
			var rel [][]int
			for i, p := range pairs {
				if code&(1<<uint(i)) != 0 {
					rel = append(rel, p)
				}
			}
			if n <= 3 {
				// every labelling over a 2-element universe
				tot := 1
				for i := 0; i < n; i++ {
					tot *= 4
				}
				for lc := 0; lc < tot; lc++ {
					fp := make([][]int, n)
					x := lc
					for i := 0; i < n; i++ {
						fp[i] = subsets[x%4]
						x /= 4
					}
					add(digOne(n, rel, fp))
				}
			} else {
				fp := make([][]int, n)
				for i := 0; i < n; i++ {
					fp[i] = []int{10 * (i + 1)}
				}
				add(digOne(n, rel, fp))
			}
		}
	}
	nexh := cnt
	r := rand.New(rand.NewSource(*seed))
	for k := 0; k < *nrand; k++ {
		n := 4 + r.Intn(9)
		dens := []float64{0.05, 0.15, 0.3}[r.Intn(3)]
		var rel [][]int
		for x := 1; x <= n; x++ {
			for y := 1; y <= n; y++ {
				if r.Float64() < dens {
					rel = append(rel, []int{x, y})
				}
			}
		}
		r.Shuffle(len(rel), func(i, j int) { rel[i], rel[j] = rel[j], rel[i] })
		fp := make([][]int, n)
		for i := range fp {
			fp[i] = []int{}
			for v := 0; v < 6; v++ {
				if r.Intn(3) == 0 {
					fp[i] = append(fp[i], 100+v)
				}
			}
		}
		add(digOne(n, rel, fp))
	}
	for s := 0; s < *shards; s++ {
		if obs[s] == nil {
			obs[s] = []digObs{}
		}
		writeJSON(filepath.Join(*out, fmt.Sprintf("dig-%d.json", s)), obs[s])
	}
	writeJSON(filepath.Join(*out, "dig-summary.json"), map[string]int{"exhaustive": nexh, "random": cnt - nexh})
	fmt.Printf("digobs: %d exhaustive + %d random graphs\n", nexh, cnt-nexh)
}
