package main

// render: write the .y files of a population (one per case and variant kind)
// for checks that drive the CLI from outside (C14, C19).

import (
	"flag"
	"fmt"
	"math/rand"
	"os"
	"path/filepath"
)

type renderRec struct {
	ID      string `json:"id"`
	Lang    string `json:"lang"` // go | ts
	File    string `json:"file"`
	NTokens int    `json:"ntokens"`
	NRules  int    `json:"nrules"`
}

func cmdRender(args []string) {
	fs := flag.NewFlagSet("render", flag.ExitOnError)
	var p popFlags
	p.register(fs)
	out := fs.String("out", ".", "output directory")
	valued := fs.Int("valued", 50, "percentage of valued cases")
	fs.Parse(args)
	os.MkdirAll(*out, 0755)
	cases := p.cases()
	r := rand.New(rand.NewSource(p.seed*7919 + 13))
	var recs []renderRec
	for i, c := range cases {
		Valuate(c, r, r.Intn(100) < *valued)
		if o := Observe(c); o.Outcome != "ok" {
			continue
		}
		for _, v := range []Variant{AllVariants[0], AllVariants[4]} {
			name := fmt.Sprintf("g%d.%s.y", i, v.Lang)
			os.WriteFile(filepath.Join(*out, name), []byte(c.RenderVariant(v)), 0644)
			recs = append(recs, renderRec{ID: c.ID, Lang: v.Lang, File: name, NTokens: len(c.Terminals()), NRules: len(c.Rules)})
		}
	}
	writeJSON(filepath.Join(*out, "render.json"), recs)
	fmt.Printf("render: %d files\n", len(recs))
}
