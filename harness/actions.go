package main

import (
	"fmt"
	"strings"
)

// tagOf returns the value tag of an abstract symbol in a valued case ("" = untagged).
func (c *Case) tagOf(s string) string {
	if t, ok := c.Types[s]; ok {
		return t
	}
	for _, t := range c.Tokens {
		if t.Sym() == s {
			return t.Tag
		}
	}
	for _, p := range c.Prec {
		for _, x := range p.Syms {
			if x == s && p.Tag != "" {
				return p.Tag
			}
		}
	}
	return ""
}

func isIntTag(t string) bool { return t == "ia" || t == "ib" }

const valMod = 9973

// actionText renders the action of rule i (0-based in c.Rules) for a target
// language.  Every action logs its rule number (yaccgo numbering: i+1) so the
// run can be replayed as a derivation; valued actions also compute $$.
func (c *Case) actionText(i int, lang string) string {
	r := c.Rules[i]
	if r.RawAct != "" {
		return r.RawAct
	}
	if r.Act.Kind == "" {
		return ""
	}
	txt := fmt.Sprintf("vhLogR(%d)", i+1)
	if i%3 == 1 {
		txt = "/* rule " + fmt.Sprint(i+1) + " */ " + txt // actions may contain comments of their own
		if len(r.Rhs) > 0 && c.tagOf(r.Rhs[0]) != "" {
			// ... and a comment may mention a $n that the code of the action does not use
			txt = "/* rule " + fmt.Sprint(i+1) + ": $1 is not needed here */ " + txt[len("/* rule "+fmt.Sprint(i+1)+" */ "):]
		}
	}
	if lang == "go" && c.NestRule == i+1 {
		txt = "vhNest(); " + txt
	}
	if lang == "goctx" { // context experiments: the action runs inside a method of the context c
		txt = fmt.Sprintf("vhLogRc(c, %d)", i+1)
		lang = "go"
	}
	if r.Act.Kind == "log" {
		return txt
	}
	ltag := c.tagOf(r.Lhs)
	if ltag == "" {
		return txt
	}
	sep := "; "
	abort := ""
	if r.Act.Abort {
		// the user's action gives up (panics) after $$ was assigned: an abandoned parse
		cond := "$$ % 5 == 2"
		if r.Act.AbortEq != 0 {
			cond = fmt.Sprintf("$$ == %d", r.Act.AbortEq)
		}
		if lang == "go" {
			abort = sep + "if " + cond + " { panic(\"vh-abort\") }"
		} else {
			abort = sep + "if (" + cond + ") { throw new Error(\"vh-abort\") }"
		}
	}
	if r.Act.Kind == "int" {
		terms := []string{fmt.Sprint(r.Act.Coefs[0])}
		for k, a := range r.Act.Args {
			t := c.tagOf(r.Rhs[a-1])
			v := fmt.Sprintf("$%d", a)
			if !isIntTag(t) {
				if lang == "go" {
					v = "len(" + v + ")"
				} else {
					v = v + ".length"
				}
			}
			terms = append(terms, fmt.Sprintf("%d*%s", r.Act.Coefs[k+1], v))
		}
		if len(r.Act.Coefs) > 0 && r.Act.Coefs[0]%2 == 1 {
			// same value, written with several occurrences of $$ (every one of them must be substituted)
			return txt + sep + "$$ = " + terms[0] + sep + "$$ = ($$ + " + strings.Join(append([]string{"0"}, terms[1:]...), " + ") + ") % " + fmt.Sprint(valMod) + abort
		}
		return txt + sep + "$$ = (" + strings.Join(terms, " + ") + ") % " + fmt.Sprint(valMod) + abort
	}
	// str
	parts := []string{}
	for _, a := range r.Act.Args {
		t := c.tagOf(r.Rhs[a-1])
		v := fmt.Sprintf("$%d", a)
		if isIntTag(t) {
			if lang == "go" {
				v = "fmt.Sprint(" + v + ")"
			} else {
				v = "String(" + v + ")"
			}
		}
		parts = append(parts, v)
	}
	e := fmt.Sprintf("\"r%d(\"", i+1)
	for k, p := range parts {
		if k > 0 {
			e += " + \",\""
		}
		e += " + " + p
	}
	e += " + \")\""
	return txt + sep + "$$ = " + e
}
