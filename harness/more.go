package main

func dispatchMore(cmd string, args []string) bool {
	switch cmd {
	case "campaign":
		cmdCampaign(args)
		return true
	}
	return false
}
