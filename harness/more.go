package main

func dispatchMore(cmd string, args []string) bool {
	return false
}
