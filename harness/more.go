package main

func dispatchMore(cmd string, args []string) bool {
	switch cmd {
	case "packobs":
		cmdPackObs(args)
		return true
	case "digobs":
		cmdDigObs(args)
		return true
	case "termcamp":
		cmdTermCamp(args)
		return true
	case "render":
		cmdRender(args)
		return true
	case "gen2":
		cmdGen2(args)
		return true
	case "sessions":
		cmdSessions(args)
		return true
	case "campaign":
		cmdCampaign(args)
		return true
	}
	return false
}
