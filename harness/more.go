package main

import (
	"fmt"
	"os"

	parser "github.com/acekingke/yaccgo/Parser"
)

var extraCmds = map[string]func([]string){}

func dispatchMore(cmd string, args []string) bool {
	if f, ok := extraCmds[cmd]; ok {
		f(args)
		return true
	}
	switch cmd {
	case "packobs":
		cmdPackObs(args)
		return true
	case "digobs":
		cmdDigObs(args)
		return true
	case "termcamp":
		cmdTermCamp(args)
		return true
	case "render":
		cmdRender(args)
		return true
	case "gen2":
		cmdGen2(args)
		return true
	case "sessions":
		cmdSessions(args)
		return true
	case "codeobs":
		cmdCodeObs(args)
		return true
	case "fileobs":
		cmdFileObs(args)
		return true
	case "filerender":
		cmdFileRender(args)
		return true
	case "listobs":
		cmdListObs(args)
		return true
	case "lexobs":
		cmdLexObs(args)
		return true
	case "parseobs":
		cmdParseObs(args)
		return true
	case "campaign":
		cmdCampaign(args)
		return true
	}
	return false
}

func init() {
	extraCmds["lexdump"] = func(args []string) {
		b, err := os.ReadFile(args[0])
		if err != nil {
			die("%v", err)
		}
		for _, t := range parser.VerifLex(string(b)) {
			fmt.Printf("%d:%d %s %q\n", t.Line, t.Column, t.Kind, t.Value)
			if t.Kind == "Error" {
				break
			}
		}
	}
}
