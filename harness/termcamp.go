package main

// termcamp: C13.  Feeds byte strings to the real CLI (`generate go`,
// `generate typescript`, `debug`) under a deadline and records whether every
// run finished.  Sources of byte strings:
//   - every prefix of rendered well-formed grammar files
//   - random edits of those files
//   - concretised token-kind sequences (the scenario space of spec/LexParse.tla)

import (
	"crypto/sha1"
	"encoding/hex"
	"flag"
	"fmt"
	"math/rand"
	"os"
	"path/filepath"
	"strings"
	"sync"
	"sync/atomic"
	"time"

	parser "github.com/acekingke/yaccgo/Parser"
)

type termAnomaly struct {
	Source string `json:"source"`
	Mode   string `json:"mode"`
	File   string `json:"file"` // saved input
	Note   string `json:"note"`
}

type termResult struct {
	Inputs     int            `json:"inputs"`
	Runs       int            `json:"runs"`
	Exit       map[string]int `json:"exit"` // exit status histogram per mode
	Anomalies  []termAnomaly  `json:"anomalies"`
	MaxMillis  int64          `json:"max_millis"`
	Sources    map[string]int `json:"sources"`
	Samples    []string       `json:"samples"`
	LexChecked int            `json:"lex_checked"` // kind scenarios whose real token kinds were compared with the model's
	LexDrift   []string       `json:"lex_drift"`   // scenarios where the real lexer produced other kinds than intended
}

var realKind = map[string]string{
	"Identifier": "Id", "Number": "Num", "Charater": "Chr", "StringKind": "Str", "LeftAngleBracket": "LA", "RightAngleBracket": "RA",
	"TokenDirective": "TokD", "LeftAssoc": "PrecD", "RightAssoc": "PrecD", "NoneAssoc": "PrecD", "Precedence": "PrecD",
	"TypeDirective": "TypeD", "StartDirective": "StartD", "UnionDirective": "Blob", "CodeQuote": "Blob", "Section": "Sec",
	"RuleDefine": "Def", "RuleOR": "Or", "RuleEnd": "End", "ActionQuote": "Act", "PrecDirective": "PrecR",
	"ActionSelf": "Other", "ActionN": "Other", "ActionAccept": "Other", "ActionEnd": "Other", "EOF": "EOF", "Error": "Error",
}

// lexKinds runs the real lexer (verif hook) and maps its token kinds to the model's.
func lexKinds(text string) []string {
	var res []string
	for _, t := range parser.VerifLex(text) {
		k, ok := realKind[string(t.Kind)]
		if !ok {
			k = "?" + string(t.Kind)
		}
		res = append(res, k)
	}
	return res
}

var termModes = []string{"go", "typescript", "debug"}

func termArgs(mode, in, out string) []string {
	switch mode {
	case "go":
		return []string{"generate", "go", in, out}
	case "typescript":
		return []string{"generate", "typescript", in, out}
	}
	return []string{"debug", in}
}

// kind -> text, for the token-kind scenarios of LexParse.tla
var kindText = map[string]string{
	"Id": "x", "Num": "7", "Chr": "'c'", "Str": "\"s\"", "LA": "<", "RA": ">",
	"TokD": "%token", "PrecD": "%left", "TypeD": "%type", "StartD": "%start", "Blob": "%union { v int }",
	"Sec": "%%", "Def": ":", "Or": "|", "End": ";", "Act": "{ a }", "PrecR": "%prec", "Other": "$$",
}

var kindOrder = []string{"Id", "Num", "Chr", "Str", "LA", "RA", "TokD", "PrecD", "TypeD", "StartD", "Blob", "Sec", "Def", "Or", "End", "Act", "PrecR", "Other"}

func concretise(kinds []string, mode string) string {
	var parts []string
	for _, k := range kinds {
		parts = append(parts, kindText[k])
	}
	s := strings.Join(parts, " ")
	switch mode {
	case "error":
		s += " @"
	case "errloop":
		s += " /* never closed"
	}
	return s
}

func cmdTermCamp(args []string) {
	fs := flag.NewFlagSet("termcamp", flag.ExitOnError)
	var p popFlags
	p.register(fs)
	cli := fs.String("cli", "", "yaccgo binary")
	out := fs.String("out", ".", "output directory")
	nfiles := fs.Int("files", 8, "number of rendered files whose prefixes are taken")
	stride := fs.Int("stride", 1, "take every stride-th prefix")
	nedits := fs.Int("edits", 2000, "random edits")
	klen := fs.Int("klen", 3, "token-kind sequences up to this length (0 = none)")
	nspecial := fs.Int("special", 40, "token-start positions per file at which each special character is injected")
	deadline := fs.Duration("deadline", 5*time.Second, "per-run deadline")
	par := fs.Int("par", 16, "parallel runs")
	single := fs.String("single", "", "run just this input file (replay)")
	fs.Parse(args)
	os.MkdirAll(*out, 0755)
	type item struct {
		source string
		data   []byte
	}
	items := make(chan item, 1024)
	res := termResult{Exit: map[string]int{}, Sources: map[string]int{}}
	var mu sync.Mutex
	var nruns, ninputs int64
	var maxms int64
	var wg sync.WaitGroup
	for w := 0; w < *par; w++ {
		wg.Add(1)
		go func(w int) {
			defer wg.Done()
			dir := filepath.Join(*out, fmt.Sprintf("w%d", w))
			os.MkdirAll(dir, 0755)
			in := filepath.Join(dir, "in.y")
			for it := range items {
				mu.Lock()
				enough := len(res.Anomalies) >= 10
				mu.Unlock()
				if enough { // ten confirmed hangs are witnesses enough: the rest of the queue is drained, not run
					continue
				}
				os.WriteFile(in, it.data, 0644)
				atomic.AddInt64(&ninputs, 1)
				for _, mode := range termModes {
					t0 := time.Now()
					_, code, to := runCmd(dir, *deadline, nil, *cli, termArgs(mode, "in.y", "out.gen")...)
					ms := time.Since(t0).Milliseconds()
					atomic.AddInt64(&nruns, 1)
					for {
						old := atomic.LoadInt64(&maxms)
						if ms <= old || atomic.CompareAndSwapInt64(&maxms, old, ms) {
							break
						}
					}
					if to {
						// confirm twice, alone, with a longer deadline
						_, _, to2 := runCmd(dir, 2**deadline, nil, *cli, termArgs(mode, "in.y", "out.gen")...)
						_, _, to3 := runCmd(dir, 2**deadline, nil, *cli, termArgs(mode, "in.y", "out.gen")...)
						if to2 && to3 {
							h := sha1.Sum(it.data)
							name := filepath.Join(*out, "hang-"+hex.EncodeToString(h[:6])+".y")
							os.WriteFile(name, it.data, 0644)
							mu.Lock()
							res.Anomalies = append(res.Anomalies, termAnomaly{Source: it.source, Mode: mode, File: name,
								Note: fmt.Sprintf("did not finish within %v (three attempts)", 2**deadline)})
							mu.Unlock()
						}
						continue
					}
					mu.Lock()
					res.Exit[fmt.Sprintf("%s:%d", mode, code)]++
					mu.Unlock()
				}
			}
		}(w)
	}
	emit := func(source string, data []byte) {
		mu.Lock()
		res.Sources[source]++
		if len(res.Samples) < 6 && len(data) < 120 {
			res.Samples = append(res.Samples, string(data))
		}
		mu.Unlock()
		items <- item{source, append([]byte{}, data...)}
	}
	if *single != "" {
		b, err := os.ReadFile(*single)
		if err != nil {
			die("%v", err)
		}
		emit("single", b)
	} else {
		cases := p.cases()
		r := rand.New(rand.NewSource(p.seed*31 + 5))
		var texts [][]byte
		for i, c := range cases {
			if i >= *nfiles {
				// beyond the files whose every prefix is taken: the whole well-formed file of every grammar of the
				// population (generation has to finish on good input too: table construction, code generation)
				Valuate(c, r, i%2 == 0)
				emit("wellformed", []byte(c.RenderVariant(AllVariants[i%len(AllVariants)])))
				continue
			}
			Valuate(c, r, i%2 == 0)
			v := AllVariants[i%len(AllVariants)]
			texts = append(texts, []byte(c.RenderVariant(v)))
		}
		for _, t := range texts {
			for n := 0; n <= len(t); n += *stride {
				emit("prefix", t[:n])
			}
		}
		// systematic injection of unusual characters at token starts: non-ASCII digits and letters, spaces that are
		// not blanks, byte-order mark, invalid UTF-8, NUL, CR
		specials := []string{"\u0663", "\u0967", "\uff11", "\u00b2", "\u00e9", "\u03bb", "\u4e2d", "\u00a0", "\u2028", "\ufeff", "\xff", "\x80", "\xc3", "\x00", "\r", "\r\n", "\v", "\f"}
		for ti, t := range texts {
			var starts []int
			for p := 1; p < len(t); p++ {
				if (t[p-1] == ' ' || t[p-1] == '\n' || t[p-1] == '\t') && t[p] != ' ' && t[p] != '\n' {
					starts = append(starts, p)
				}
			}
			r.Shuffle(len(starts), func(i, j int) { starts[i], starts[j] = starts[j], starts[i] })
			nmax := *nspecial
			if ti > 3 {
				nmax = nmax / 4
			}
			if len(starts) > nmax {
				starts = starts[:nmax]
			}
			for _, p := range starts {
				for _, sp := range specials {
					var b []byte
					b = append(b, t[:p]...)
					b = append(b, sp...)
					if r.Intn(2) == 0 {
						b = append(b, ' ')
					}
					b = append(b, t[p:]...)
					emit("special", b)
				}
			}
		}
		alphabet := []byte("%{}<>:;|'\"/*$ \n\tab01-\\@\xd9\xa3\xc3\xa9\xff\x00\r")
		for k := 0; k < *nedits && len(texts) > 0; k++ {
			t := append([]byte{}, texts[r.Intn(len(texts))]...)
			ne := 1 + r.Intn(3)
			for e := 0; e < ne && len(t) > 0; e++ {
				pos := r.Intn(len(t))
				switch r.Intn(4) {
				case 0:
					t = append(t[:pos], t[pos+1:]...)
				case 1:
					t[pos] = alphabet[r.Intn(len(alphabet))]
				case 2:
					t = append(t[:pos], append([]byte{alphabet[r.Intn(len(alphabet))]}, t[pos:]...)...)
				case 3:
					end := pos + 1 + r.Intn(40)
					if end > len(t) {
						end = len(t)
					}
					t = append(t[:pos], t[end:]...)
				}
			}
			emit("edit", t)
		}
		if *klen > 0 {
			var rec func(cur []string)
			rec = func(cur []string) {
				for _, m := range []string{"eof", "error", "errloop"} {
					txt := concretise(cur, m)
					emit("kinds", []byte(txt))
					if m != "errloop" { // the lexer never stops offering tokens there
						want := append(append([]string{}, cur...), map[string]string{"eof": "EOF", "error": "Error"}[m])
						got := lexKinds(txt)
						mu.Lock()
						res.LexChecked++
						if strings.Join(got, " ") != strings.Join(want, " ") && len(res.LexDrift) < 20 {
							res.LexDrift = append(res.LexDrift, fmt.Sprintf("%q: want %v got %v", txt, want, got))
						}
						mu.Unlock()
					}
				}
				if len(cur) == *klen {
					return
				}
				for _, k := range kindOrder {
					rec(append(cur, k))
				}
			}
			rec(nil)
		}
	}
	close(items)
	wg.Wait()
	res.Inputs, res.Runs, res.MaxMillis = int(ninputs), int(nruns), maxms
	if res.LexDrift == nil {
		res.LexDrift = []string{}
	}
	if res.Anomalies == nil {
		res.Anomalies = []termAnomaly{}
	}
	writeJSON(filepath.Join(*out, "term.json"), res)
	for w := 0; w < *par; w++ {
		os.RemoveAll(filepath.Join(*out, fmt.Sprintf("w%d", w)))
	}
	fmt.Printf("termcamp: %d inputs, %d runs, %d hangs, slowest %d ms, sources %v\n", res.Inputs, res.Runs, len(res.Anomalies), res.MaxMillis, res.Sources)
}
