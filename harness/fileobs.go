package main

// fileobs: C10.  An abstract grammar-file specification is turned into a
// sequence of lexemes; the gaps between lexemes are filled according to a
// layout vector chosen by TLC (spec/Layout.tla); the real front end
// (Parse + visitors + BuildLALR1) reads the text in-process and the result is
// projected back to the abstract vocabulary for comparison (spec/ConfFile.tla).

import (
	"flag"
	"fmt"
	"math/rand"
	"os"
	"path/filepath"
	"strings"

	builder "github.com/acekingke/yaccgo/Builder"
	parser "github.com/acekingke/yaccgo/Parser"
	symbol "github.com/acekingke/yaccgo/Symbol"
)

type fileTok struct {
	Name  string `json:"name"`
	Num   int    `json:"num"` // explicit number, 0 = automatic (not compared)
	Tag   string `json:"tag"`
	Level int    `json:"level"`
	Assoc string `json:"assoc"` // left | right | nonassoc | ""
}

type fileRule struct {
	Lhs    string   `json:"lhs"`
	Rhs    []string `json:"rhs"`
	Prec   string   `json:"prec"`
	Action string   `json:"action"`
	// the symbol whose precedence the rule has: the explicit %prec symbol, else the rule's last terminal if that has a
	// precedence; "?" where yacc's and yaccgo's reading of "the rule's precedence" differ (not compared)
	EffPrec string `json:"effprec"`
}

// fileView is the abstract content of a grammar file -- what C10 says must be
// read faithfully.  It is produced twice: from the abstract spec (want) and
// from yaccgo's data structures after reading a rendering (got).
type fileView struct {
	Rules    []fileRule `json:"rules"`
	Start    string     `json:"start"`
	Tokens   []fileTok  `json:"tokens"` // sorted by name
	NTTags   []fileTok  `json:"nttags"` // nonterminals with a %type tag, sorted by name
	Prologue string     `json:"prologue"`
	Union    string     `json:"union"`
	Epilogue string     `json:"epilogue"`
}

type lexeme struct {
	Text  string
	Punct bool // may touch its neighbours
}

type fileSpec struct {
	ID       string
	Case     *Case
	Prologue string
	Union    string
	Epilogue string
	Actions  []string // per rule, inner text ("" = no action)
	AltJoin  []bool   // rule i is written as `| alternative` of rule i-1 (same lhs)
	Semi     []bool   // rule group ends with ';'
	// order of the declaration lines: tokens (t<i>), precedence lines (p<i>, relative order kept), %type (y<name>), %start (s)
	DeclOrder []string
	// tokens additionally pre-declared bare (`%token NAME`) before their full declaration
	PreDecl []string
	// the union body follows its brace directly ("{ia int}") instead of on a new line
	UnionTight bool
	// the file ends after the rules: no second %% (then there is no epilogue)
	NoSecondSection bool
}

// action bodies with the number of right-hand-side symbols they need ($n must not exceed the rule's length)
var actionBodies = []struct {
	text string
	need int
}{
	{"", 0}, {"", 0}, {"$$ = $1", 1}, {"x := 1; _ = x", 0}, {"y := 7 % 3; _ = y /* 100% */", 0}, {"if a { b() } else { c() }", 0},
	{"/* note */ f($1, $2)", 2}, {"s := \"text\"; _ = s", 0}, {"for i := 0; i < 3; i++ { g(i) }", 0}, {"$$ = $1 + $3", 3},
	{"// line comment\n\tdone()", 0}, {"$$ = 100 % 7", 0},
}

func genFileSpec(r *rand.Rand, id string) *fileSpec {
	k := randKnobs(r)
	k.PPrec = 0.7
	k.Literals = r.Intn(2) == 0
	c := GenRandom(r, id, k)
	// some identifier tokens are spelled like directive words (they are ordinary identifiers in a yacc file)
	if r.Intn(3) == 0 {
		words := []string{"left", "right", "type", "token", "prec", "union", "nonassoc"}
		r.Shuffle(len(words), func(i, j int) { words[i], words[j] = words[j], words[i] })
		ren := map[string]string{}
		wi := 0
		for i := range c.Tokens {
			if !c.Tokens[i].Lit && r.Intn(2) == 0 && wi < len(words) {
				ren[c.Tokens[i].Name] = words[wi]
				c.Tokens[i].Name = words[wi]
				wi++
			}
		}
		rn := func(s string) string {
			if x, ok := ren[s]; ok {
				return x
			}
			return s
		}
		for i := range c.Rules {
			for j := range c.Rules[i].Rhs {
				c.Rules[i].Rhs[j] = rn(c.Rules[i].Rhs[j])
			}
			c.Rules[i].Prec = rn(c.Rules[i].Prec)
		}
		for i := range c.Prec {
			for j := range c.Prec[i].Syms {
				c.Prec[i].Syms[j] = rn(c.Prec[i].Syms[j])
			}
		}
	}
	// in many of the specs that use character literals one of them is not ASCII (its number is the character's code, not a byte of its
	// encoding); chosen by the spec's name, so the random stream of the other choices stays as it was
	{
		h := idHash(id)
		from := ""
		lits := map[string]bool{}
		for _, ru := range c.Rules {
			for _, x := range ru.Rhs {
				if isLitSym(x) && len(x) == 3 && x[1] > 32 && x[1] < 127 {
					lits[x] = true
					if from == "" {
						from = x
					}
				}
			}
		}
		// specs with several literals keep an ASCII one beside it; of those with one literal, every other one
		if from != "" && (len(lits) >= 2 || h%2 == 0) {
			to := "'" + []string{"é", "×", "λ", "÷", "è"}[(h/3)%5] + "'"
			rn := func(x string) string {
				if x == from {
					return to
				}
				return x
			}
			for i := range c.Tokens {
				if c.Tokens[i].Lit && c.Tokens[i].Sym() == from {
					c.Tokens[i].Name = to[1 : len(to)-1]
				}
			}
			for i := range c.Rules {
				for j := range c.Rules[i].Rhs {
					c.Rules[i].Rhs[j] = rn(c.Rules[i].Rhs[j])
				}
				c.Rules[i].Prec = rn(c.Rules[i].Prec)
			}
			for i := range c.Prec {
				for j := range c.Prec[i].Syms {
					c.Prec[i].Syms[j] = rn(c.Prec[i].Syms[j])
				}
			}
		}
	}
	// tags and explicit numbers
	used := map[int]bool{}
	for i := range c.Tokens {
		if !c.Tokens[i].Lit {
			if r.Intn(3) == 0 {
				c.Tokens[i].Tag = []string{"ia", "st", "node"}[r.Intn(3)]
			}
			if r.Intn(4) == 0 {
				n := 300 + r.Intn(200)
				if !used[n] {
					used[n] = true
					c.Tokens[i].Num = n
				}
			}
		}
	}
	for _, nt := range c.NTs() {
		if r.Intn(3) == 0 {
			c.Types[nt] = []string{"ia", "st", "node"}[r.Intn(3)]
		}
	}
	fs := &fileSpec{ID: id, Case: c}
	var items []string
	for i := range c.Tokens {
		items = append(items, fmt.Sprintf("t%d", i))
	}
	for _, nt := range c.NTs() {
		if _, ok := c.Types[nt]; ok {
			items = append(items, "y"+nt)
		}
	}
	items = append(items, "s")
	if r.Intn(2) == 0 {
		r.Shuffle(len(items), func(i, j int) { items[i], items[j] = items[j], items[i] })
	}
	// weave the precedence lines in, keeping their relative order (it defines the levels)
	for i := range c.Prec {
		lo := 0
		for k, it := range items {
			if it[0] == 'p' {
				lo = k + 1
			}
		}
		pos := len(items)
		if r.Intn(2) == 0 {
			pos = lo + r.Intn(len(items)-lo+1)
		}
		items = append(items[:pos], append([]string{fmt.Sprintf("p%d", i)}, items[pos:]...)...)
	}
	fs.DeclOrder = items
	fs.UnionTight = r.Intn(3) == 0
	fs.NoSecondSection = r.Intn(5) == 0
	for _, t := range c.Tokens {
		if !t.Lit && (t.Tag != "" || t.Num != 0) && r.Intn(4) == 0 {
			fs.PreDecl = append(fs.PreDecl, t.Name)
		}
	}
	fs.Prologue = []string{"package main", "package main\n\nimport \"fmt\"\n\nvar _ = fmt.Sprint", "package p // 100% Go { not a brace problem }\nconst K = 17 % 5"}[r.Intn(3)]
	if len(c.Types) > 0 || r.Intn(2) == 0 {
		fs.Union = []string{"ia int\n\tst string\n\tnode *Node", "ia int; st string; node struct{ a, b int } // 3 fields, 100%"}[r.Intn(2)]
	}
	hasTag := len(c.Types) > 0
	for _, t := range c.Tokens {
		if t.Tag != "" {
			hasTag = true
		}
	}
	if hasTag && fs.Union == "" {
		fs.Union = "ia int\n\tst string\n\tnode *Node"
	}
	fs.Epilogue = []string{"\nfunc GetToken() {}\n", "\n// epilogue %% with markers { } ' and 50% more %d %s\n\nfunc main() {\n\tprintln(\"hi\", 9%4)\n}\n", "\n"}[r.Intn(3)]
	// a %prec alternative that is followed by further alternatives of the same nonterminal (the annotation
	// belongs to that one alternative only)
	var precToks []string
	for _, pl := range c.Prec {
		precToks = append(precToks, pl.Syms...)
	}
	forceJoin := map[int]bool{}
	if len(precToks) > 0 {
		for i := 0; i+1 < len(c.Rules); i++ {
			if c.Rules[i].Lhs == c.Rules[i+1].Lhs && r.Intn(3) == 0 {
				c.Rules[i].Prec = precToks[r.Intn(len(precToks))]
				c.Rules[i+1].Prec = ""
				forceJoin[i+1] = true
			}
		}
	}
	for i := range c.Rules {
		ab := actionBodies[r.Intn(len(actionBodies))]
		if ab.need > len(c.Rules[i].Rhs) {
			ab = actionBodies[3]
		}
		if len(c.Rules[i].Rhs) == 0 && len(precToks) > 0 && r.Intn(2) == 0 {
			// an empty alternative that consists of nothing but its %prec annotation ("opt : %prec X | ...")
			c.Rules[i].Prec = precToks[r.Intn(len(precToks))]
			ab = actionBodies[0]
		}
		fs.Actions = append(fs.Actions, ab.text)
		join := i > 0 && c.Rules[i-1].Lhs == c.Rules[i].Lhs && (r.Intn(3) != 0 || forceJoin[i])
		fs.AltJoin = append(fs.AltJoin, join)
		fs.Semi = append(fs.Semi, r.Intn(3) != 0)
	}
	return fs
}

func (fs *fileSpec) lexemes() []lexeme {
	c := fs.Case
	var ls []lexeme
	w := func(s string) { ls = append(ls, lexeme{Text: s}) }
	p := func(s string) { ls = append(ls, lexeme{Text: s, Punct: true}) }
	// %} is followed by a line break (as in every yacc file; yaccgo requires white space there)
	w("%{\n" + fs.Prologue + "\n%}\n")
	if fs.Union != "" {
		w("%union")
		if fs.UnionTight {
			w("{" + fs.Union + "}")
		} else {
			w("{\n\t" + fs.Union + "\n}")
		}
	}
	for _, name := range fs.PreDecl {
		w("%token")
		w(name)
	}
	for _, it := range fs.DeclOrder {
		switch it[0] {
		case 't':
			var i int
			fmt.Sscanf(it[1:], "%d", &i)
			t := c.Tokens[i]
			w("%token")
			if t.Tag != "" {
				p("<")
				w(t.Tag)
				p(">")
			}
			w(symText(t.Sym()))
			if t.Num != 0 {
				if idHash(c.ID+t.Name)%3 == 0 {
					w(fmt.Sprintf("%05d", t.Num)) // a decimal numeral may have leading zeros
				} else {
					w(fmt.Sprint(t.Num))
				}
			}
		case 'p':
			var i int
			fmt.Sscanf(it[1:], "%d", &i)
			pl := c.Prec[i]
			w("%" + pl.Assoc)
			for _, s := range pl.Syms {
				w(symText(s))
			}
		case 'y':
			nt := it[1:]
			w("%type")
			p("<")
			w(c.Types[nt])
			p(">")
			w(nt)
		case 's':
			w("%start")
			w(c.Start)
		}
	}
	w("%%")
	for i, ru := range c.Rules {
		if fs.AltJoin[i] {
			p("|")
		} else {
			w(ru.Lhs)
			p(":")
		}
		for _, s := range ru.Rhs {
			w(symText(s))
		}
		if ru.Prec != "" {
			w("%prec")
			w(symText(ru.Prec))
		}
		if fs.Actions[i] != "" {
			p("{ " + fs.Actions[i] + " }")
		}
		last := i+1 == len(c.Rules) || !fs.AltJoin[i+1]
		if last && fs.Semi[i] {
			p(";")
		}
	}
	if !fs.NoSecondSection {
		w("%%")
	}
	return ls
}

var sepKinds = []string{" ", "   ", "\t", "\n", "\n\n", " /* c */ ", " // c\n", "", "/**/", "\n/* multi\n   line */\n"}

// render fills gap g (before lexeme g; gap 0 is the start of the file) with the separator of kind layout[g].
func (fs *fileSpec) render(layout []int) string {
	ls := fs.lexemes()
	var sb strings.Builder
	for i, l := range ls {
		kind := 0
		if i < len(layout) {
			kind = layout[i] % len(sepKinds)
		}
		sep := sepKinds[kind]
		if i == 0 && kind == 7 {
			sep = ""
		} else if sep == "" && !(l.Punct || ls[i-1].Punct) {
			sep = " " // two words may not touch
		}
		sb.WriteString(sep)
		sb.WriteString(l.Text)
	}
	if !fs.NoSecondSection {
		sb.WriteString(fs.Epilogue)
	}
	return sb.String()
}

func (fs *fileSpec) want() fileView {
	c := fs.Case
	v := fileView{Start: c.Start, Prologue: strings.TrimSpace(fs.Prologue), Union: strings.TrimSpace(fs.Union), Epilogue: fs.Epilogue}
	if fs.NoSecondSection {
		v.Epilogue = ""
	}
	for i, ru := range c.Rules {
		rhs := ru.Rhs
		if rhs == nil {
			rhs = []string{}
		}
		eff, agreed := c.effPrec(ru)
		if !agreed {
			eff = "?"
		}
		prec := ru.Prec
		if prec != "" && c.precLevel(prec) == 0 {
			prec = "" // %prec naming a symbol without a precedence level gives the rule nothing: there is nothing to carry
		}
		v.Rules = append(v.Rules, fileRule{Lhs: ru.Lhs, Rhs: rhs, Prec: prec, Action: strings.TrimSpace(fs.Actions[i]), EffPrec: eff})
	}
	tp := map[string]tokPrec{}
	for _, p := range c.TokPrec() {
		tp[p.Name] = p
	}
	for _, t := range c.Terminals() {
		ft := fileTok{Name: asciiName(t)}
		for _, d := range c.Tokens {
			if d.Sym() == t {
				ft.Num, ft.Tag = d.Num, d.Tag
			}
		}
		if isLitSym(t) && ft.Num == 0 {
			// a character literal declares its own number: the code of the character
			ft.Num = int([]rune(t[1 : len(t)-1])[0])
		}
		if p, ok := tp[t]; ok {
			ft.Level, ft.Assoc = p.Level, p.Assoc
		}
		v.Tokens = append(v.Tokens, ft)
	}
	sortToks(v.Tokens)
	v.NTTags = []fileTok{}
	for _, nt := range c.NTs() {
		if tg, ok := c.Types[nt]; ok {
			v.NTTags = append(v.NTTags, fileTok{Name: nt, Tag: tg})
		}
	}
	sortToks(v.NTTags)
	return v
}

func sortToks(ts []fileTok) {
	for i := 1; i < len(ts); i++ {
		for j := i; j > 0 && ts[j-1].Name > ts[j].Name; j-- {
			ts[j-1], ts[j] = ts[j], ts[j-1]
		}
	}
}

// got projects what yaccgo read.
func gotView(w *parser.Walker, explicit map[string]bool) fileView {
	root := w.VistorNode.(*parser.RootVistor)
	g := root.LALR1.G
	v := fileView{Prologue: strings.TrimSpace(root.GetCode()), Union: strings.TrimSpace(root.GetUion()), Epilogue: root.GetCodeCopy(), NTTags: []fileTok{}}
	if len(g.ProductoinRules) > 0 && len(g.ProductoinRules[0].RighPart) == 1 && g.ProductoinRules[0].RighPart[0] != nil {
		v.Start = g.ProductoinRules[0].RighPart[0].Name
	}
	for i := 1; i < len(g.ProductoinRules); i++ {
		pr := g.ProductoinRules[i]
		fr := fileRule{Lhs: pr.LeftPart.Name, Rhs: []string{}}
		for _, s := range pr.RighPart {
			fr.Rhs = append(fr.Rhs, projName(int(s.ID), s.Name))
		}
		one := root.GetRules(i - 1)
		act := strings.TrimSpace(one.ActionCode)
		if strings.HasPrefix(act, "{") && strings.HasSuffix(act, "}") {
			act = strings.TrimSpace(act[1 : len(act)-1])
		}
		fr.Action = act
		v.Rules = append(v.Rules, fr)
	}
	for _, sy := range g.Symbols {
		if sy.ID <= 1 {
			continue
		}
		name := projName(int(sy.ID), sy.Name)
		if sy.IsNonTerminator {
			if sy.Tag != "" {
				v.NTTags = append(v.NTTags, fileTok{Name: name, Tag: sy.Tag})
			}
			continue
		}
		ft := fileTok{Name: asciiName(name), Tag: sy.Tag}
		if explicit[name] || isLitSym(name) {
			ft.Num = sy.Value
		}
		if sy.Prec > 0 {
			ft.Level = sy.Prec
			switch sy.PrecType {
			case symbol.LEFT:
				ft.Assoc = "left"
			case symbol.RIGHT:
				ft.Assoc = "right"
			default:
				ft.Assoc = "nonassoc"
			}
		}
		v.Tokens = append(v.Tokens, ft)
	}
	sortToks(v.Tokens)
	sortToks(v.NTTags)
	return v
}

type fileObs struct {
	Spec       int      `json:"spec"` // 1-based index into specs
	Layout     []int    `json:"layout"`
	Outcome    string   `json:"outcome"`
	Diag       string   `json:"diag"`
	Got        fileView `json:"got"`
	RulePrecOK bool     `json:"ruleprec_ok"` // explicit %prec symbols arrived at the right rules
	// for the first layout of every specification the Go and TypeScript generators are run on the text and the
	// output file is searched for the user's text (empty list = not generated for this observation)
	Gen []genCheck `json:"gen"`
}

type genCheck struct {
	Lang     string `json:"lang"`
	OK       bool   `json:"ok"`       // generation succeeded
	Prologue bool   `json:"prologue"` // output contains the prologue text
	Union    bool   `json:"union"`    // output contains the %union body
	Epilogue bool   `json:"epilogue"` // output ends with the epilogue
	Actions  bool   `json:"actions"`  // every action body without $-references appears verbatim
	Note     string `json:"note"`
}

func (fs *fileSpec) genChecks(text, dir string) []genCheck {
	var res []genCheck
	for _, lang := range []string{"go", "ts"} {
		gc := genCheck{Lang: lang}
		out := filepath.Join(dir, "fileobs-gen."+lang)
		os.Remove(out)
		resetFlags()
		var gerr error
		_, perr, _ := capture(func() {
			if lang == "go" {
				gerr = builder.TemplateGenFromString(text, out)
			} else {
				gerr = builder.TsGenFromString(text, out)
			}
		})
		b, rerr := os.ReadFile(out)
		os.Remove(out)
		if perr != nil || gerr != nil || rerr != nil {
			gc.Note = fmt.Sprintf("generation failed: %v %v %v", perr, gerr, rerr)
			res = append(res, gc)
			continue
		}
		gc.OK = true
		o := string(b)
		gc.Prologue = strings.Contains(o, strings.TrimSpace(fs.Prologue))
		gc.Union = fs.Union == "" || strings.Contains(o, strings.TrimSpace(fs.Union))
		epi := fs.Epilogue
		if fs.NoSecondSection {
			epi = ""
		}
		gc.Epilogue = strings.HasSuffix(o, epi)
		gc.Actions = true
		for _, a := range fs.Actions {
			if a != "" && !strings.Contains(a, "$") && !strings.Contains(o, a) {
				gc.Actions = false
				gc.Note = "missing action text: " + a
			}
		}
		res = append(res, gc)
	}
	return res
}

type specInfo struct {
	ID     string   `json:"id"`
	NGaps  int      `json:"ngaps"`
	NKinds int      `json:"nkinds"`
	Want   fileView `json:"want"`
}

func cmdFileObs(args []string) {
	fs := flag.NewFlagSet("fileobs", flag.ExitOnError)
	seed := fs.Int64("seed", 1, "seed")
	n := fs.Int("n", 20, "number of file specs")
	out := fs.String("out", ".", "out dir")
	phase := fs.String("phase", "specs", "specs | observe")
	shards := fs.Int("shards", 16, "shards")
	fs.Parse(args)
	os.MkdirAll(*out, 0755)
	r := rand.New(rand.NewSource(*seed))
	var specs []*fileSpec
	for len(specs) < *n {
		s := genFileSpec(r, fmt.Sprintf("file-%d-%d", *seed, len(specs)))
		// only usable grammars: C10 is about reading, not about rejecting
		if o := Observe(s.Case); o.Outcome != "ok" {
			continue
		}
		specs = append(specs, s)
	}
	if *phase == "specs" {
		var infos []specInfo
		for _, s := range specs {
			infos = append(infos, specInfo{ID: s.ID, NGaps: len(s.lexemes()), NKinds: len(sepKinds), Want: s.want()})
		}
		writeJSON(filepath.Join(*out, "specs.json"), infos)
		fmt.Printf("fileobs: %d specs\n", len(infos))
		return
	}
	// observe: layouts.json = [[layout vectors for spec 1], ...]
	var layouts [][][]int
	readJSON(filepath.Join(*out, "layouts.json"), &layouts)
	obs := make([][]fileObs, *shards)
	cnt := 0
	outcomes := map[string]int{}
	for si, s := range specs {
		if si >= len(layouts) {
			break
		}
		explicit := map[string]bool{}
		for _, t := range s.Case.Tokens {
			if t.Num != 0 {
				explicit[t.Sym()] = true
			}
		}
		for li, lay := range layouts[si] {
			text := s.render(lay)
			resetFlags()
			w, outcome, diag, _ := buildInProcess(text)
			o := fileObs{Spec: si + 1, Layout: lay, Outcome: outcome, Diag: diag, RulePrecOK: true, Gen: []genCheck{}}
			if li == 0 && outcome == "ok" {
				o.Gen = s.genChecks(text, *out)
			}
			if outcome == "ok" {
				o.Got = gotView(w, explicit)
				// explicit %prec: observable through the rule's precedence symbol
				root := w.VistorNode.(*parser.RootVistor)
				wantView := s.want()
				for i := range s.Case.Rules {
					if i+1 < len(root.LALR1.G.ProductoinRules) && i < len(o.Got.Rules) && i < len(wantView.Rules) {
						if wantView.Rules[i].EffPrec == "?" {
							o.Got.Rules[i].EffPrec = "?"
						} else if ps := root.LALR1.G.ProductoinRules[i+1].PrecSymbol; ps != nil {
							o.Got.Rules[i].EffPrec = projName(int(ps.ID), ps.Name)
						}
					}
				}
				for i, ru := range s.Case.Rules {
					if i+1 < len(root.LALR1.G.ProductoinRules) && ru.Prec != "" && s.Case.precLevel(ru.Prec) != 0 {
						ps := root.LALR1.G.ProductoinRules[i+1].PrecSymbol
						if ps == nil || projName(int(ps.ID), ps.Name) != ru.Prec {
							o.RulePrecOK = false
						} else if i < len(o.Got.Rules) {
							o.Got.Rules[i].Prec = ru.Prec
						}
					}
				}
			} else {
				o.Got = fileView{Rules: []fileRule{}, Tokens: []fileTok{}, NTTags: []fileTok{}}
				if len(diag) > 300 {
					o.Diag = diag[:300]
				}
			}
			if o.Got.Rules == nil {
				o.Got.Rules = []fileRule{}
			}
			if o.Got.Tokens == nil {
				o.Got.Tokens = []fileTok{}
			}
			outcomes[outcome]++
			obs[cnt%*shards] = append(obs[cnt%*shards], o)
			cnt++
		}
	}
	for k := range obs {
		if obs[k] == nil {
			obs[k] = []fileObs{}
		}
		writeJSON(filepath.Join(*out, fmt.Sprintf("fobs-%d.json", k)), obs[k])
	}
	fmt.Printf("fileobs: %d renderings read: %v\n", cnt, outcomes)
}

// renderOne is used by replay: spec index + layout -> text
func cmdFileRender(args []string) {
	fs := flag.NewFlagSet("filerender", flag.ExitOnError)
	seed := fs.Int64("seed", 1, "seed")
	n := fs.Int("n", 20, "number of file specs")
	spec := fs.Int("spec", 1, "1-based spec index")
	layout := fs.String("layout", "", "comma separated layout vector")
	fs.Parse(args)
	r := rand.New(rand.NewSource(*seed))
	var specs []*fileSpec
	for len(specs) < *n {
		s := genFileSpec(r, fmt.Sprintf("file-%d-%d", *seed, len(specs)))
		if o := Observe(s.Case); o.Outcome != "ok" {
			continue
		}
		specs = append(specs, s)
	}
	var lay []int
	for _, x := range splitComma(*layout) {
		var k int
		fmt.Sscanf(x, "%d", &k)
		lay = append(lay, k)
	}
	fmt.Print(specs[*spec-1].render(lay))
}
