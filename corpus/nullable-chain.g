tokens: a b c d
S -> A B C D
A -> | a
B -> | b
C -> | c
D -> | d
