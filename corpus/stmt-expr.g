tokens: id num if then else
P -> | P St ';'
St -> id '=' E | if E then St | if E then St else St | '{' P '}'
E -> E '+' Tm | E '-' Tm | Tm
Tm -> Tm '*' F | Tm '/' F | F
F -> '(' E ')' | '-' F | id | num | id '(' Args ')'
Args -> | E | Args ',' E
