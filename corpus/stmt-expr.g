tokens: id num IF THEN ELSE
P -> | P St ';'
St -> id '=' E | IF E THEN St | IF E THEN St ELSE St | '{' P '}'
E -> E '+' Tm | E '-' Tm | Tm
Tm -> Tm '*' F | Tm '/' F | F
F -> '(' E ')' | '-' F | id | num | id '(' Args ')'
Args -> | E | Args ',' E
