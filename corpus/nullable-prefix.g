tokens: a b c
S -> A B c
A -> a |
B -> b |
