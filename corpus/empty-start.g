tokens: a
S ->
