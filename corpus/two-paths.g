# same nonterminal transition reached along paths of different length
tokens: a b c
S -> a A | a a B c | A c
A -> b
B -> b
