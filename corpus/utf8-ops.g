# non-ASCII operator literals sharing their first UTF-8 byte, one infix and one postfix
tokens: n 'é' 'è'
S -> S 'é' n | S 'è' | n
