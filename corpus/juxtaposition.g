# items written one after the other (application / argument lists): a left-recursive start symbol whose
# single-item state reduces on every terminal - its packed row is empty apart from the default
tokens: NAME NUM STR '=' '[' ']'
start: args
args -> arg | args arg
arg -> NAME | NUM | STR | NAME '=' value | '[' args ']'
value -> NUM | STR
