# rule has precedence, token has none: unresolved, default shift, warning
tokens: n q
left: '+'
E -> E '+' E | E q E %prec '+' | n
