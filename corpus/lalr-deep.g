# look-ahead must propagate through two levels of nullable suffixes
tokens: a b c d
S -> a X d | b X c | a Y c
X -> Z N
Y -> Z
Z -> c
N ->
