tokens: i e x
S -> i S | i S e S | x
