# an unused token and an unreachable (but productive) nonterminal
tokens: a b zz
S -> a S | b
U -> a U | b
