# reduce/reduce conflict: the earlier rule must win
tokens: a
S -> A | B
B -> a
A -> a
