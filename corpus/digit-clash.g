# The item sets {(1,1),(2,1),(3,1)} (after X) and {(11,2),(13,1)} (after W P Q) -- rule numbers as yaccgo counts
# them, 0 = augmented rule -- spell the same digit string when rule index and dot are concatenated without a
# separator: a state identity that is not the full item set merges them.  (Shape taken from an independently
# seeded defect, C09 round 2; conflict-free, 13 user rules.)
tokens: X Y Z W P Q R V U
s -> X | X Y | X Z | W b | W d | V e | U f
e -> R
f -> R | Y
b -> P Q
d -> P c
c -> Q R
