# character literals that are letters (one-character keywords), including the letters of the internal
# name prefix of literal tokens, plus '$' and '%'
tokens: n
S -> 'a' S 't' | 'e' | 'o' 'p' S | S 'r' n | '$' n '%'
