# nullable nonterminal transitions in a loop (reads relation has a cycle)
tokens: a
S -> S A | a
A -> | A B
B ->
