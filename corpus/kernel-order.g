# one item set reached from two states that list its predecessor items in different relative order
# (a kernel item that adds nothing to the closure next to one that does)
tokens: 'p' 'q' 'u' 'x' 'y' 'z'
start: S
S -> 'p' Z | 'p' A | 'q' A | 'q' W
Z -> 'u' B
A -> 'u' 'x' 'y'
W -> 'u' B
B -> 'x' 'z'
