# an empty alternative that carries %prec and takes part in a shift/reduce conflict:
# on T the reduction of the empty rule (level of P) beats the shift of T
tokens: T U V
nonassoc: T
nonassoc: P
S -> lead T U | T V
lead -> %prec P
