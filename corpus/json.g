tokens: str num true false null
V -> str | num | true | false | null | '{' Ms '}' | '[' Es ']'
Ms -> | Mlist
Mlist -> M | Mlist ',' M
M -> str ':' V
Es -> | Elist
Elist -> V | Elist ',' V
