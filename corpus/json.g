tokens: str num TRUE FALSE NULL
V -> str | num | TRUE | FALSE | NULL | '{' Ms '}' | '[' Es ']'
Ms -> | Mlist
Mlist -> M | Mlist ',' M
M -> str ':' V
Es -> | Elist
Elist -> V | Elist ',' V
