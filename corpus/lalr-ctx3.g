# LALR(1); a state-blind includes/lookback relation reports a spurious conflict
tokens: a b c d e
S -> a A d | a B e | b A e
A -> c
B -> c
