# ambiguous without precedence: every conflict resolved by default (shift)
tokens: n
E -> E '+' E | E '*' E | n
