tokens: b c
S -> A S b | c
A ->
