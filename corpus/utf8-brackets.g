# non-ASCII character literals whose UTF-8 encodings share their first byte, in different roles
tokens: n '«' '»'
S -> '«' S '»' | n
