tokens: n
left: '+' '-'
left: '*'
right: UMINUS
E -> E '+' E | E '-' E | E '*' E | '-' E %prec UMINUS | '(' E ')' | n
