tokens: i x
nonassoc: THEN
nonassoc: e
S -> i S %prec THEN | i S e S | x
