tokens: a
S -> S | a
