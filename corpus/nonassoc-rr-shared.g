# one completed rule (E -> E N E) with %nonassoc precedence that, in one state, has a shift/reduce conflict on N (same
# level: error cell) AND a reduce/reduce conflict on another of its look-aheads (B) against the earlier empty rule M ->
# (no precedence: the earlier rule wins).  The two conflicts are resolved independently of each other and of the order
# in which the columns are visited.
tokens: ID B
nonassoc: N
start: S
S -> E
M ->
E -> ID | E N E | E M B
