# examples/e.y
tokens: 'n'
L -> | E L
E -> 'n'
