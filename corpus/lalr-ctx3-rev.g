# same, rule order reversed (B before A)
tokens: a b c d e
S -> a A d | a B e | b A e
B -> c
A -> c
