tokens: x
L -> | L x
