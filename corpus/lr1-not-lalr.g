# LR(1) but not LALR(1): merging cores creates a reduce/reduce conflict
tokens: a b c d e
S -> a A d | b B d | a B e | b A e
A -> c
B -> c
