# not LR(k)
tokens: a b
S -> a S a | b S b | a | b |
