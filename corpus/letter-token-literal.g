# a token whose name is a single letter next to the character literal of the same letter, the literal being
# used in a rule without a declaration of its own: two different terminals
tokens: x n
S -> x 'x' n | S 'n' x | n
