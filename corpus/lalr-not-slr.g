# LALR(1) but not SLR(1) (dragon book 4.48)
tokens: id
S -> L '=' R | R
L -> '*' R | id
R -> L
