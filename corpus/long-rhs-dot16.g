# a right-hand side longer than 16 symbols: item (rule, dot) pairs with dot >= 16 must stay distinct from every other item
# (rule 2 is the long one; the nonterminal behind position 16 has its alternatives as rules 3 and 4; a second long rule
# with odd number follows, whose own dot-16 item must not be taken for its dot-0 item)
tokens: a b c d
start: S
S -> T
T -> a '(' b ',' b ',' b ',' b ')' c '[' d ']' '{' a U '}'
U -> 'p' | 'q'
V -> 'r'
T -> b '(' b ',' b ',' b ',' b ')' c '[' d ']' '{' a T '}' V
