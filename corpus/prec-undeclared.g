# %prec naming a token that has no precedence level: the rule has no precedence, its conflicts stay unresolved
tokens: n UMINUS
left: '+' '-'
left: '*'
E -> E '+' E | E '-' E | E '*' E | '-' E %prec UMINUS | n
