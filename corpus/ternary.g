# mixfix rule with two precedence-carrying terminals on different levels: the rule's own precedence is that of
# the LAST one (':'), which decides a?b:c+d and a?b:c?d:e
tokens: n
right: '?'
left: '+'
right: ':'
left: '*'
E -> E '?' E ':' E | E '+' E | E '*' E | n
