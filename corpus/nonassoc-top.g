# %nonassoc on the highest level above four lower binary operators: in the row of E '<' E . the reductions
# outnumber the error cell that %nonassoc plants (it must survive default-action compression)
tokens: n
left: '+' '-'
left: '*' '/'
nonassoc: '<'
E -> E '+' E | E '-' E | E '*' E | E '/' E | E '<' E | '(' E ')' | n
