# postfix notation with one operator: the gotos on E are folded into a default goto that is a real state
tokens: NUM
E -> E E '+' | NUM
