# LALR(1) but not NQLALR(1) (Bermudez & Logothetis)
tokens: a b c d g
S -> a g d | a A c | b A d | b g c
A -> B
B -> g
