# LR(0)
tokens: a b c
S -> a S b | c
