# SLR(1), not LR(0): the classic unambiguous expression grammar
tokens: id
E -> E '+' T | T
T -> T '*' F | F
F -> '(' E ')' | id
