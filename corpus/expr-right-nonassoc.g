tokens: n
right: '='
nonassoc: '<'
left: '+'
right: '^'
E -> E '=' E | E '<' E | E '+' E | E '^' E | n
