# the same special character literal twice in one rule ('%' must be doubled in the generated trace format)
tokens: n
S -> '%' '%' n | S '%' n '%' | '"' n '"'
