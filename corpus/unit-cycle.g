# cyclic grammar (A =>+ A): ambiguous, reduce/reduce conflicts
tokens: a
S -> A
A -> B | a
B -> A
