tokens: n
left: '+' '-'
left: '*' '/'
E -> E '+' E | E '-' E | E '*' E | E '/' E | '(' E ')' | n
