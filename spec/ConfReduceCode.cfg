SPECIFICATION Spec
INVARIANT RC_Population
INVARIANT RC_OneCasePerRule
INVARIANT RC_Window
INVARIANT RC_Stack
INVARIANT RC_Body
INVARIANT RC_Comment
INVARIANT RC_SymIndex
CHECK_DEADLOCK FALSE
