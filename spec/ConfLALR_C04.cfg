SPECIFICATION Spec
INVARIANT C04_Cells
CHECK_DEADLOCK FALSE
