-------------------------------- MODULE LR0 --------------------------------
(***************************************************************************)
(* The canonical LR(0) collection (definition, as a least fixpoint) -- the   *)
(* ground truth of C09.  An item is <<rule, dot>>, dot in 0..Len(rhs).        *)
(***************************************************************************)
EXTENDS Grammar

DotSym(G, it)   == Rhs(G, it[1])[it[2] + 1]
Complete(G, it) == it[2] = Len(Rhs(G, it[1]))

RECURSIVE Clo0(_, _)
Clo0(G, I) ==
  LET want == {DotSym(G, it) : it \in {it \in I : ~Complete(G, it)}}
      I2 == I \cup {<<r, 0>> : r \in {r \in DOMAIN G.rules : G.rules[r].lhs \in want}}
  IN IF I2 = I THEN I ELSE Clo0(G, I2)

Kernel0(G, I, X) == {<<it[1], it[2] + 1>> : it \in {it \in I : ~Complete(G, it) /\ DotSym(G, it) = X}}
Goto0(G, I, X)   == LET k == Kernel0(G, I, X) IN IF k = {} THEN {} ELSE Clo0(G, k)
NextSyms(G, I)   == {DotSym(G, it) : it \in {it \in I : ~Complete(G, it)}}

RECURSIVE Reach0(_, _, _)
\* S: states found so far, W: frontier
Reach0(G, S, W) ==
  IF W = {} THEN S
  ELSE LET N == {Goto0(G, I, X) : <<I, X>> \in UNION {{<<I, X>> : X \in NextSyms(G, I)} : I \in W}} \ S
       IN Reach0(G, S \cup N, N)
Start0(G)  == Clo0(G, {<<1, 0>>})
States0(G) == Reach0(G, {Start0(G)}, {Start0(G)})

\* goto along a symbol string
RECURSIVE GotoStar(_, _, _)
GotoStar(G, I, s) == IF I = {} \/ Len(s) = 0 THEN I ELSE GotoStar(G, Goto0(G, I, Head(s)), Tail(s))
=============================================================================
