------------------------------ MODULE LRDriver ------------------------------
(***************************************************************************)
(* The table-driven LR parser that yaccgo generates (three hand-maintained   *)
(* copies: goCode.templ, goObject.templ, TsGenCode.go), as a state machine   *)
(* over an abstract table                                                    *)
(*    tab.action[state][terminal] \in [k : {"s","r","a","e"}, n : Nat]       *)
(*    tab.goto[state][nonterminal] \in Nat   (0 = no entry)                  *)
(* with the code's grain: one step per loop iteration -- Shift (push, then   *)
(* fetch), Reduce (pop |rhs|, goto lookup, push), Accept, Error.             *)
(*                                                                           *)
(* A configuration is a record                                               *)
(*   st     state stack (1 = start state at the bottom)                      *)
(*   sy     symbol stack (without the bottom marker)                         *)
(*   pos    index of the look-ahead in the input; also the number of tokens  *)
(*          fetched so far (the parser fetches one token ahead)              *)
(*   status "run" | "accept" | "error" | "underflow" | "nogoto" | "diverge"  *)
(*   nred   reductions since the last shift (to bound divergence)            *)
(*   dok    every reduction so far had its right-hand side on the symbol     *)
(*          stack (the run is a rightmost derivation in reverse)             *)
(*   reds   rules reduced, in order (history)                                *)
(***************************************************************************)
EXTENDS LALR, SequencesExt

InitCfg == [st |-> <<1>>, sy |-> <<>>, pos |-> 1, status |-> "run", nred |-> 0, dok |-> TRUE, reds |-> <<>>]
LaOf(input, c) == IF c.pos > Len(input) THEN End ELSE input[c.pos]
Top(s) == s[Len(s)]
MaxRed == 200   \* more consecutive reductions than any terminating run needs on the bounded inputs used

DStep(G, tab, input, c) ==
  LET la == LaOf(input, c)
      a  == IF la \in DOMAIN tab.action[Top(c.st)] THEN tab.action[Top(c.st)][la] ELSE ErrAct
  IN
  IF a.k = "s" THEN [c EXCEPT !.st = Append(@, a.n), !.sy = Append(@, la), !.pos = @ + 1, !.nred = 0]
  ELSE IF a.k = "r" THEN
     LET rhs == Rhs(G, a.n) n == Len(rhs) lhs == Lhs(G, a.n) IN
     IF Len(c.st) <= n THEN [c EXCEPT !.status = "underflow"]
     ELSE LET base == SubSeq(c.st, 1, Len(c.st) - n)
              gt == IF lhs \in DOMAIN tab.goto[Top(base)] THEN tab.goto[Top(base)][lhs] ELSE 0
              handleOK == SubSeq(c.sy, Len(c.sy) - n + 1, Len(c.sy)) = rhs
          IN IF gt = 0 THEN [c EXCEPT !.status = "nogoto"]
             ELSE IF c.nred >= MaxRed THEN [c EXCEPT !.status = "diverge"]
             ELSE [c EXCEPT !.st = Append(base, gt),
                            !.sy = Append(SubSeq(c.sy, 1, Len(c.sy) - n), lhs),
                            !.nred = @ + 1, !.dok = @ /\ handleOK, !.reds = Append(@, a.n)]
  ELSE IF a.k = "a" THEN [c EXCEPT !.status = "accept"]
  ELSE [c EXCEPT !.status = "error"]

RECURSIVE RunFrom(_, _, _, _)
RunFrom(G, tab, input, c) == IF c.status # "run" THEN c ELSE RunFrom(G, tab, input, DStep(G, tab, input, c))
Run(G, tab, input) == RunFrom(G, tab, input, InitCfg)

\* an accepting configuration is sound when the symbol stack is exactly the
\* start symbol, the whole input was consumed, and every handle was right
SoundCfg(G, input, c) == c.dok /\ c.sy = <<StartSym(G)>> /\ c.pos = Len(input) + 1

-----------------------------------------------------------------------------
(* The specification's own LALR(1) table for G (used as the reference for    *)
(* conflict-free grammars; cells with 3+ candidates or other don't-cares      *)
(* become errors and make the grammar "not conflict-free").                   *)
\* order: the LR(0) states as a sequence (start state first); la: look-aheads
\* on reduce points.  Both are passed in as already computed values.
StateOrder(G, S0) == <<Start0(G)>> \o SetToSeq(S0 \ {Start0(G)})
NumOf(order, I) == CHOOSE n \in DOMAIN order : order[n] = I
SpecTabFrom(G, order, la) ==
  LET T == DeclTerms(G) \cup {End}
      cell(I, a) == LET e == CellAct(G, la, I, a) IN
                    IF e.k = "s" THEN [k |-> "s", n |-> NumOf(order, Goto0(G, I, a))]
                    ELSE IF e.k = "dc" THEN ErrAct ELSE e
  IN [ action |-> TLCEval([n \in DOMAIN order |-> TLCEval([a \in T |-> cell(order[n], a)])]),
       goto   |-> TLCEval([n \in DOMAIN order |-> TLCEval([A \in NT(G) |->
                      IF A \in NextSyms(G, order[n]) THEN NumOf(order, Goto0(G, order[n], A)) ELSE 0])]),
       conflictfree |-> ConflictCells(G, la, SeqRange(order), T) = {},
       \* every conflict cell is decided by the rules of C04 (no don't-care cell)
       decided |-> \A I \in SeqRange(order) : \A a \in T :
                     /\ CellAct(G, la, I, a).k # "dc"
                     /\ NCand(G, la, I, a) = 2 => \A r \in CandReds(G, la, I, a) : ~G.rules[r].precdc,
       nstates |-> Len(order) ]
SpecOf(G) == LET S0 == States0(G) IN SpecTabFrom(G, StateOrder(G, S0), LADef(G))
=============================================================================
