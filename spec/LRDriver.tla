------------------------------ MODULE LRDriver ------------------------------
(***************************************************************************)
(* The table-driven LR parser that yaccgo generates (three hand-maintained   *)
(* copies: goCode.templ, goObject.templ, TsGenCode.go), as a state machine   *)
(* over an abstract table                                                    *)
(*    tab.action[state][terminal] \in [k : {"s","r","a","e"}, n : Nat]       *)
(*    tab.goto[state][nonterminal] \in Nat   (0 = no entry)                  *)
(* with the code's grain: one step per loop iteration -- Shift (push, then   *)
(* fetch), Reduce (pop |rhs|, goto lookup, push), Accept, Error.             *)
(*                                                                           *)
(* A configuration is a record                                               *)
(*   st     state stack (1 = start state at the bottom)                      *)
(*   sy     symbol stack (without the bottom marker)                         *)
(*   pos    index of the look-ahead in the inp; also the number of tokens  *)
(*          fetched so far (the parser fetches one token ahead)              *)
(*   status "run" | "accept" | "error" | "underflow" | "nogoto" | "diverge"  *)
(*   nred   reductions since the last shift (to bound divergence)            *)
(*   dok    every reduction so far had its right-hand side on the symbol     *)
(*          stack (the run is a rightmost derivation in reverse)             *)
(*   reds   rules reduced, in order (history)                                *)
(***************************************************************************)
EXTENDS LALR, SequencesExt

InitCfg == [st |-> <<1>>, sy |-> <<>>, pos |-> 1, status |-> "run", nred |-> 0, dok |-> TRUE, reds |-> <<>>]
LaOf(inp, cf) == IF cf.pos > Len(inp) THEN End ELSE inp[cf.pos]
Top(s) == s[Len(s)]
MaxRed == 200   \* more consecutive reductions than any terminating run needs on the bounded inputs used

DStep(G, tab, inp, cf) ==
  LET lah == LaOf(inp, cf)
      a  == IF lah \in DOMAIN tab.action[Top(cf.st)] THEN tab.action[Top(cf.st)][lah] ELSE ErrAct
  IN
  IF a.k = "s" THEN [cf EXCEPT !.st = Append(@, a.n), !.sy = Append(@, lah), !.pos = @ + 1, !.nred = 0]
  ELSE IF a.k = "r" THEN
     LET rhs == Rhs(G, a.n) n == Len(rhs) lhs == Lhs(G, a.n) IN
     IF Len(cf.st) <= n THEN [cf EXCEPT !.status = "underflow"]
     ELSE LET base == SubSeq(cf.st, 1, Len(cf.st) - n)
              gt == IF lhs \in DOMAIN tab.goto[Top(base)] THEN tab.goto[Top(base)][lhs] ELSE 0
              handleOK == SubSeq(cf.sy, Len(cf.sy) - n + 1, Len(cf.sy)) = rhs
          IN IF gt = 0 THEN [cf EXCEPT !.status = "nogoto"]
             ELSE IF cf.nred >= MaxRed THEN [cf EXCEPT !.status = "diverge"]
             ELSE [cf EXCEPT !.st = Append(base, gt),
                            !.sy = Append(SubSeq(cf.sy, 1, Len(cf.sy) - n), lhs),
                            !.nred = @ + 1, !.dok = @ /\ handleOK, !.reds = Append(@, a.n)]
  ELSE IF a.k = "a" THEN [cf EXCEPT !.status = "accept"]
  ELSE [cf EXCEPT !.status = "error"]

RECURSIVE RunFrom(_, _, _, _)
RunFrom(G, tab, inp, cf) == IF cf.status # "run" THEN cf ELSE RunFrom(G, tab, inp, DStep(G, tab, inp, cf))
Run(G, tab, inp) == RunFrom(G, tab, inp, InitCfg)

\* an accepting configuration is sound when the symbol stack is exactly the
\* start symbol, the whole inp was consumed, and every handle was right
SoundCfg(G, inp, cf) == cf.dok /\ cf.sy = <<StartSym(G)>> /\ cf.pos = Len(inp) + 1

-----------------------------------------------------------------------------
(* The specification's own LALR(1) table for G (used as the reference for    *)
(* conflict-free grammars; cells with 3+ candidates or other don't-cares      *)
(* become errors and make the grammar "not conflict-free").                   *)
\* order: the LR(0) states as a sequence (start state first); lah: look-aheads
\* on reduce points.  Both are passed in as already computed values.
StateOrder(G, S0) == <<Start0(G)>> \o SetToSeq(S0 \ {Start0(G)})
NumOf(order, I) == CHOOSE n \in DOMAIN order : order[n] = I
\* (top-level operator on purpose: a constant definition whose body contains a LET-defined operator WITH
\* parameters is not precomputed by TLC but re-evaluated on every use)
SpecCell(G, order, lah, I, a) ==
  LET e == CellAct(G, lah, I, a) IN
  IF e.k = "s" THEN [k |-> "s", n |-> NumOf(order, Goto0(G, I, a))]
  ELSE IF e.k = "dc" THEN ErrAct ELSE e
SpecTabFrom(G, order, lah) ==
  LET T == DeclTerms(G) \cup {End}
  IN [ action |-> TLCEval([n \in DOMAIN order |-> TLCEval([a \in T |-> SpecCell(G, order, lah, order[n], a)])]),
       goto   |-> TLCEval([n \in DOMAIN order |-> TLCEval([A \in NT(G) |->
                      IF A \in NextSyms(G, order[n]) THEN NumOf(order, Goto0(G, order[n], A)) ELSE 0])]),
       conflictfree |-> ConflictCells(G, lah, SeqRange(order), T) = {},
       \* every conflict cell is decided by the rules of C04 (no don't-care cell)
       decided |-> \A I \in SeqRange(order) : \A a \in T :
                     /\ CellAct(G, lah, I, a).k # "dc"
                     /\ NCand(G, lah, I, a) = 2 => \A r \in CandReds(G, lah, I, a) : ~G.rules[r].precdc,
       nstates |-> Len(order) ]
SpecOf(G) == LET S0 == States0(G) IN SpecTabFrom(G, StateOrder(G, S0), LADef(G))
=============================================================================
