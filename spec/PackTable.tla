------------------------------ MODULE PackTable ------------------------------
(***************************************************************************)
(* Meaning of the packed tables (C05).                                       *)
(* A packing of a matrix T (rows x cols, 0 = "default/absent") is a triple   *)
(* act, off, chk; entry (i, j) is act[off[i]+j] when that position exists    *)
(* and chk says it belongs to row i, else 0  (Utils.UnPackTable).            *)
(* Indices are 0-based as in the code; TLA sequences are 1-based, hence +1.  *)
(***************************************************************************)
EXTENDS Integers, Sequences

Lookup(act, off, chk, i, j) ==
  LET p == off[i + 1] + j IN
  IF p < 0 \/ p >= Len(chk) THEN 0
  ELSE IF chk[p + 1] # i THEN 0 ELSE act[p + 1]

Lossless(T, act, off, chk) ==
  /\ Len(off) = Len(T)
  /\ Len(act) = Len(chk)
  /\ \A i \in 0..(Len(T) - 1) : \A j \in 0..(Len(T[i + 1]) - 1) :
        Lookup(act, off, chk, i, j) = T[i + 1][j + 1]

(***************************************************************************)
(* The generated parser's Action() over the split tables: action rows and    *)
(* goto columns share one packing; defaults per state (actions) and per      *)
(* nonterminal (gotos).  nterm = number of terminals including "$"; column 0 *)
(* is the augmented start symbol, columns 1..nterm terminals, the rest       *)
(* nonterminals.                                                             *)
(***************************************************************************)
SplitLookup(act, off, chk, adef, gdef, nterm, errcode, s, a) ==
  LET p == off[s + 1] + a IN
  IF p < 0 THEN errcode
  ELSE IF p >= Len(chk) \/ chk[p + 1] # s
       THEN (IF a > nterm THEN gdef[a - nterm] ELSE adef[s + 1])
       ELSE act[p + 1]
=============================================================================
