CONSTANTS Seed = 1
R = 40
