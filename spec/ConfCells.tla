------------------------------ MODULE ConfCells ------------------------------
(* C05, second sentence, on the generated code itself: "looking up any (state, symbol) through the packed arrays with
   their default-action and default-goto vectors returns exactly the entry of the uncompressed table".  The harness
   asks the look-up function Action() of every BUILT Go variant (packed: default, -o; plain table: -u, -o -u) for every
   state and every symbol column and records the answers next to the dense table of the same grammar recorded
   in-process.  (ConfLALR.tla checks the same statement on the exported arrays through SplitLookup, a TLA+ transcription
   of Action(); here nothing is transcribed, so a change of the template alone is seen.) *)
EXTENDS Integers, Sequences, Json
Obs == JsonDeserialize("obs.json")
VARIABLES g, v
Init == g \in DOMAIN Obs /\ v \in DOMAIN Obs[g].variants
Next == UNCHANGED <<g, v>>
Spec == Init /\ [][Next]_<<g, v>>
C05_CodeLookup == Obs[g].variants[v].cells = Obs[g].table
=============================================================================
