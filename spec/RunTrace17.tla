----------------------------- MODULE RunTrace17 -----------------------------
(***************************************************************************)
(* C17: the parse trace tells the truth.                                     *)
(* Input: runs of generated Go parsers with IsTrace = true.  Besides the     *)
(* events of RunTrace (reset, T, R, end) the printed trace lines appear, in   *)
(* the order the process wrote them:                                         *)
(*   shift   "Shift <sym>, push state <n>"     (token shift or goto)         *)
(*   reduce  "look ahead <la>, use Reduce:<rule text>, go to state <n>"      *)
(* The specification replays the lines on the grammar's LR(0) automaton      *)
(* (LR0.tla -- so the judgement does not depend on how conflicts were        *)
(* resolved): a stack of item sets, the current look-ahead, and a binding    *)
(* of printed state numbers to item sets that has to stay a partial          *)
(* bijection.  `okay` turns FALSE at the first line that is not a legal,      *)
(* truthful step; `why` says which rule was broken.                          *)
(***************************************************************************)
EXTENDS LR0, Json

Cases == JsonDeserialize("tcases.json")
Trace == ndJsonDeserialize("trace.ndjson")

VARIABLES l, phase, cs, la, nT, istk, stmap, pendR, pendGoto, needFetch, okay, why, verdict
vars == <<l, phase, cs, la, nT, istk, stmap, pendR, pendGoto, needFetch, okay, why, verdict>>

Gc == Cases[cs].g
Starts == {i \in DOMAIN Trace : Trace[i].e = "reset"}
Ev(e) == l <= Len(Trace) /\ Trace[l].e = e /\ l' = l + 1
Top(s) == s[Len(s)]

Init == /\ l \in Starts /\ phase = "idle" /\ cs = 0 /\ la = "" /\ nT = 0 /\ istk = <<>> /\ stmap = {}
        /\ pendR = 0 /\ pendGoto = [sym |-> "", state |-> -1] /\ needFetch = TRUE /\ okay = TRUE /\ why = "" /\ verdict = ""

Reset == /\ Ev("reset") /\ phase = "idle"
         /\ phase' = "run" /\ cs' = Trace[l].case
         /\ istk' = <<Start0(Cases[Trace[l].case].g)>>
         /\ UNCHANGED <<la, nT, stmap, pendR, pendGoto, needFetch, okay, why, verdict>>

Fail(reason) == /\ okay' = FALSE /\ why' = (IF okay THEN reason ELSE why)
                /\ UNCHANGED <<phase, cs, la, nT, istk, stmap, pendR, pendGoto, needFetch, verdict>>

\* binding printed state number n to item set I keeps stmap a partial bijection
Bindable(n, I) == \A p \in stmap : (p[1] = n) <=> (p[2] = I)

Fetch == /\ Ev("T") /\ phase = "run"
         /\ IF ~okay THEN Fail("")
            ELSE IF ~needFetch THEN Fail("token fetched although no shift was printed since the last fetch")
            ELSE IF pendR # 0 \/ pendGoto.sym # "" THEN Fail("token fetched in the middle of a reduction")
            ELSE /\ la' = Trace[l].tok /\ nT' = nT + 1 /\ needFetch' = FALSE
                 /\ UNCHANGED <<phase, cs, istk, stmap, pendR, pendGoto, okay, why, verdict>>

Action == /\ Ev("R") /\ phase = "run"
          /\ IF ~okay THEN Fail("")
             ELSE IF pendR # 0 THEN Fail("a reduction was executed but not printed")
             ELSE IF pendGoto.sym # "" THEN Fail("reduction executed before the previous goto was printed")
             ELSE /\ pendR' = Trace[l].rule
                  /\ UNCHANGED <<phase, cs, la, nT, istk, stmap, pendGoto, needFetch, okay, why, verdict>>

ReduceLine ==
  /\ Ev("reduce") /\ phase = "run"
  /\ LET r == pendR IN
     IF ~okay THEN Fail("")
     ELSE IF r = 0 THEN Fail("a reduction was printed but none was executed")
     ELSE IF r \notin DOMAIN Gc.rules \/ r = 1 THEN Fail("executed rule number out of range")
     ELSE IF Trace[l].text # Cases[cs].texts[r] THEN Fail("printed rule text is not the executed rule")
     ELSE IF Trace[l].look # la THEN Fail("printed look-ahead is not the current look-ahead")
     ELSE IF <<r, Len(Rhs(Gc, r))>> \notin Top(istk) THEN Fail("reduction by a rule whose completed item is not in the current state")
     ELSE IF Len(istk) <= Len(Rhs(Gc, r)) THEN Fail("stack underflow")
     ELSE LET base == SubSeq(istk, 1, Len(istk) - Len(Rhs(Gc, r)))
              tgt == Goto0(Gc, Top(base), Lhs(Gc, r))
          IN IF tgt = {} THEN Fail("no goto on the left-hand side")
             ELSE IF ~Bindable(Trace[l].state, tgt) THEN Fail("printed goto state number inconsistent with earlier lines")
             ELSE /\ istk' = Append(base, tgt)
                  /\ stmap' = stmap \cup {<<Trace[l].state, tgt>>}
                  /\ pendR' = 0
                  /\ pendGoto' = [sym |-> Lhs(Gc, r), state |-> Trace[l].state]
                  /\ UNCHANGED <<phase, cs, la, nT, needFetch, okay, why, verdict>>

ShiftLine ==
  /\ Ev("shift") /\ phase = "run"
  /\ IF ~okay THEN Fail("")
     ELSE IF pendR # 0 THEN Fail("a reduction was executed but not printed")
     ELSE IF pendGoto.sym # ""
     THEN \* the push of the left-hand side after a reduction
          IF Trace[l].sym # pendGoto.sym \/ Trace[l].state # pendGoto.state
          THEN Fail("goto line does not match the reduction just printed")
          ELSE /\ pendGoto' = [sym |-> "", state |-> -1]
               /\ UNCHANGED <<phase, cs, la, nT, istk, stmap, pendR, needFetch, okay, why, verdict>>
     ELSE \* a token shift
          IF needFetch THEN Fail("second shift without a token fetch in between")
          ELSE IF Trace[l].sym # la THEN Fail("shifted symbol is not the look-ahead")
          ELSE LET tgt == IF la = End THEN {} ELSE Goto0(Gc, Top(istk), la) IN
               IF tgt = {} THEN Fail("shift on a symbol the current state has no transition for")
               ELSE IF ~Bindable(Trace[l].state, tgt) THEN Fail("printed shift state number inconsistent with earlier lines")
               ELSE /\ istk' = Append(istk, tgt)
                    /\ stmap' = stmap \cup {<<Trace[l].state, tgt>>}
                    /\ needFetch' = TRUE
                    /\ UNCHANGED <<phase, cs, la, nT, pendR, pendGoto, okay, why, verdict>>

\* the reported outcome of a nested parse started by an action (its own output was cut out by the harness)
NestNote == /\ Ev("nest") /\ phase = "run"
            /\ UNCHANGED <<phase, cs, la, nT, istk, stmap, pendR, pendGoto, needFetch, okay, why, verdict>>
Other == /\ Ev("other") /\ phase = "run"
         /\ IF okay THEN Fail("unrecognised line in the trace output")
            ELSE Fail("")

EndRun ==
  /\ Ev("end") /\ phase = "run"
  /\ phase' = "ended" /\ verdict' = Trace[l].verdict
  /\ okay' = (okay /\ pendR = 0 /\ pendGoto.sym = "")
  /\ why' = IF okay /\ pendR # 0 THEN "a reduction was executed but not printed"
            ELSE IF okay /\ pendGoto.sym # "" THEN "goto after the last reduction was not printed"
            ELSE why
  /\ UNCHANGED <<cs, la, nT, istk, stmap, pendR, pendGoto, needFetch>>

Next == Reset \/ Fetch \/ Action \/ ReduceLine \/ ShiftLine \/ Other \/ NestNote \/ EndRun
Spec == Init /\ [][Next]_vars

TraceAccepted == TLCGet("stats").distinct = Len(Trace) + Cardinality(Starts)

\* a truthful trace: every line legal, every executed reduction printed, and
\* an accepted run ends in the state that contains the completed start item
C17_Truth == okay
C17_AcceptState == (phase = "ended" /\ verdict = "accept" /\ okay) =>
                      (<<1, 1>> \in Top(istk) /\ la = End)
=============================================================================
