----------------------------- MODULE ConfPipeline -----------------------------
(***************************************************************************)
(* Conformance of real CLI runs with Pipeline.tla: each recorded run is one  *)
(* scenario (language, planted cause, option set) with a pre-existing output *)
(* file; the observation is exit status, whether the file's bytes changed    *)
(* and whether the new content is complete (ends with the user's epilogue).  *)
(* The model's final state for that scenario says what must be observed.     *)
(***************************************************************************)
EXTENDS PipelineDefs, Json
Obs == JsonDeserialize("obs.json")
VARIABLE m
CInit == m \in DOMAIN Obs
CNext == UNCHANGED m
CSpec == CInit /\ [][CNext]_m
\* what the model (with the code's CreateAt) ends in for this scenario
ModelFails(c) == c # "none"
C19_Obs_Untouched == ModelFails(Obs[m].cause) => (Obs[m].exit # 0 /\ ~Obs[m].changed)
C19_Obs_Complete  == ~ModelFails(Obs[m].cause) => (Obs[m].exit = 0 /\ Obs[m].complete)
C19_Obs_Known     == Obs[m].cause \in Causes /\ Obs[m].lang \in Langs
=============================================================================
