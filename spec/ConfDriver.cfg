CONSTANTS KMax = 5
Limit = 400
KLang = 0
SPECIFICATION Spec
INVARIANT C01_Sound
INVARIANT C01_NoStuck
INVARIANT C01_Handles
INVARIANT C02_Complete
INVARIANT C06_FirstBad
INVARIANT C06_NoDiverge
INVARIANT SpecTabOK
INVARIANT Report
CHECK_DEADLOCK FALSE
