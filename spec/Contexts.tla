------------------------------ MODULE Contexts ------------------------------
(***************************************************************************)
(* C15 (2): parsers generated with -o, one context per parse, stepping       *)
(* interleaved.  Each context c has its own LRDriver configuration; a step   *)
(* of the system is a step of one context (every interleaving is explored).  *)
(* SharedStack = TRUE models the mistake of keeping the stack at package     *)
(* level: both contexts then push and pop the same stack.                    *)
(* Property: when a context finishes, its outcome is Ref(input[c]).          *)
(***************************************************************************)
EXTENDS LRDriver, TLC
CONSTANTS SharedStack

G == [rules |-> << [lhs |-> "$accept", rhs |-> <<"E">>, prec |-> "", precdc |-> FALSE],
                   [lhs |-> "E", rhs |-> <<"E", "+", "n">>, prec |-> "", precdc |-> FALSE],
                   [lhs |-> "E", rhs |-> <<"n">>, prec |-> "", precdc |-> FALSE] >>,
      terms |-> <<"n", "+">>, nts |-> <<"$accept", "E">>, tokprec |-> <<>>]
Tab == SpecOf(G)
Inputs == { <<"n">>, <<"n", "+", "n">>, <<"n", "+">>, <<"+">> }
Ctx == {1, 2}
Ref(w) == LET r == Run(G, Tab, w) IN [status |-> r.status, reds |-> r.reds, pos |-> r.pos]

VARIABLES input, cfg, shared
vars == <<input, cfg, shared>>
Init == /\ input \in [Ctx -> Inputs]
        /\ cfg = [c \in Ctx |-> InitCfg]
        /\ shared = [st |-> <<1>>, sy |-> <<>>]
Step(c) ==
  /\ cfg[c].status = "run"
  /\ LET cur == IF SharedStack THEN [cfg[c] EXCEPT !.st = shared.st, !.sy = shared.sy] ELSE cfg[c]
         nxt == DStep(G, Tab, input[c], cur)
     IN /\ cfg' = [cfg EXCEPT ![c] = nxt]
        /\ shared' = IF SharedStack THEN [st |-> nxt.st, sy |-> nxt.sy] ELSE shared
  /\ UNCHANGED input
Next == \E c \in Ctx : Step(c)
Spec == Init /\ [][Next]_vars
Outcome(c) == [status |-> cfg[c].status, reds |-> cfg[c].reds, pos |-> cfg[c].pos]
Isolated == \A c \in Ctx : cfg[c].status # "run" => Outcome(c) = Ref(input[c])
=============================================================================
