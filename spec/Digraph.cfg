CONSTANTS Nodes = {1, 2, 3}
defaultInitValue = 0
Univ = {1, 2}
FixedFP = TRUE
SPECIFICATION Spec
INVARIANT DigraphCorrect
INVARIANT PartialSound
INVARIANT StackDistinct
PROPERTY Terminates
CHECK_DEADLOCK FALSE
