------------------------------- MODULE Digraph -------------------------------
(***************************************************************************)
(* DeRemer-Pennello's Digraph (LALR/Digraph.go: Digraph + Traverse), as a    *)
(* PlusCal algorithm with the code's structure: stack S, marks N, sets F,    *)
(* recursion over the successors of x, minimum of N, union of F, and the SCC  *)
(* pop that gives every member of a component the root's set.  The order in   *)
(* which successors and start nodes are visited is left open (the code takes  *)
(* them in slice / map order).  Checked for every relation R on Nodes and    *)
(* every FP over a small universe:                                           *)
(*    on termination  F[x] = UNION {FP[y] : y reachable from x (reflexive)}   *)
(***************************************************************************)
EXTENDS Integers, Sequences, FiniteSets, TLC

CONSTANTS Nodes, Univ, FixedFP   \* FixedFP: TRUE = only the labelling FP[x] = {x}

Infinity == 1000
Min(a, b) == IF a < b THEN a ELSE b

(* --fair algorithm Digraph
variables R \in [Nodes -> SUBSET Nodes],
          FP \in IF FixedFP THEN {[nn \in Nodes |-> {nn}]} ELSE [Nodes -> SUBSET Univ],
          S = <<>>, N = [nn \in Nodes |-> 0], F = [nn \in Nodes |-> {}],
          todo = Nodes, cur = 0;

procedure Traverse(x)
  variables d = 0, ys = {}, y = 0, top = 0;
begin
T1: S := Append(S, x);
    d := Len(S);
    N[x] := d;
    F[x] := FP[x];
    ys := R[x];
T2: while ys # {} do
      with z \in ys do y := z; ys := ys \ {z}; end with;
T2a:  if N[y] = 0 then
        call Traverse(y);
      end if;
T3:   N[x] := Min(N[x], N[y]);
      F[x] := F[x] \cup F[y];
    end while;
T4: if N[x] = d then
T5:   while TRUE do
        top := S[Len(S)];
        S := SubSeq(S, 1, Len(S) - 1);
        N[top] := Infinity;
        F[top] := F[x];
        if top = x then
          goto T6;
        end if;
      end while;
    end if;
T6: return;
end procedure;

begin
M1: while todo # {} do
      with s \in todo do
        todo := todo \ {s};
        cur := s;
      end with;
M2:   if N[cur] = 0 then
        call Traverse(cur);
      end if;
    end while;
end algorithm; *)
\* BEGIN TRANSLATION
CONSTANT defaultInitValue
VARIABLES pc, R, FP, S, N, F, todo, cur, stack, x, d, ys, y, top

vars == << pc, R, FP, S, N, F, todo, cur, stack, x, d, ys, y, top >>

Init == (* Global variables *)
        /\ R \in [Nodes -> SUBSET Nodes]
        /\ FP \in IF FixedFP THEN {[nn \in Nodes |-> {nn}]} ELSE [Nodes -> SUBSET Univ]
        /\ S = <<>>
        /\ N = [nn \in Nodes |-> 0]
        /\ F = [nn \in Nodes |-> {}]
        /\ todo = Nodes
        /\ cur = 0
        (* Procedure Traverse *)
        /\ x = defaultInitValue
        /\ d = 0
        /\ ys = {}
        /\ y = 0
        /\ top = 0
        /\ stack = << >>
        /\ pc = "M1"

T1 == /\ pc = "T1"
      /\ S' = Append(S, x)
      /\ d' = Len(S')
      /\ N' = [N EXCEPT ![x] = d']
      /\ F' = [F EXCEPT ![x] = FP[x]]
      /\ ys' = R[x]
      /\ pc' = "T2"
      /\ UNCHANGED << R, FP, todo, cur, stack, x, y, top >>

T2 == /\ pc = "T2"
      /\ IF ys # {}
            THEN /\ \E z \in ys:
                      /\ y' = z
                      /\ ys' = ys \ {z}
                 /\ pc' = "T2a"
            ELSE /\ pc' = "T4"
                 /\ UNCHANGED << ys, y >>
      /\ UNCHANGED << R, FP, S, N, F, todo, cur, stack, x, d, top >>

T2a == /\ pc = "T2a"
       /\ IF N[y] = 0
             THEN /\ /\ stack' = << [ procedure |->  "Traverse",
                                      pc        |->  "T3",
                                      d         |->  d,
                                      ys        |->  ys,
                                      y         |->  y,
                                      top       |->  top,
                                      x         |->  x ] >>
                                  \o stack
                     /\ x' = y
                  /\ d' = 0
                  /\ ys' = {}
                  /\ y' = 0
                  /\ top' = 0
                  /\ pc' = "T1"
             ELSE /\ pc' = "T3"
                  /\ UNCHANGED << stack, x, d, ys, y, top >>
       /\ UNCHANGED << R, FP, S, N, F, todo, cur >>

T3 == /\ pc = "T3"
      /\ N' = [N EXCEPT ![x] = Min(N[x], N[y])]
      /\ F' = [F EXCEPT ![x] = F[x] \cup F[y]]
      /\ pc' = "T2"
      /\ UNCHANGED << R, FP, S, todo, cur, stack, x, d, ys, y, top >>

T4 == /\ pc = "T4"
      /\ IF N[x] = d
            THEN /\ pc' = "T5"
            ELSE /\ pc' = "T6"
      /\ UNCHANGED << R, FP, S, N, F, todo, cur, stack, x, d, ys, y, top >>

T5 == /\ pc = "T5"
      /\ top' = S[Len(S)]
      /\ S' = SubSeq(S, 1, Len(S) - 1)
      /\ N' = [N EXCEPT ![top'] = Infinity]
      /\ F' = [F EXCEPT ![top'] = F[x]]
      /\ IF top' = x
            THEN /\ pc' = "T6"
            ELSE /\ pc' = "T5"
      /\ UNCHANGED << R, FP, todo, cur, stack, x, d, ys, y >>

T6 == /\ pc = "T6"
      /\ pc' = Head(stack).pc
      /\ d' = Head(stack).d
      /\ ys' = Head(stack).ys
      /\ y' = Head(stack).y
      /\ top' = Head(stack).top
      /\ x' = Head(stack).x
      /\ stack' = Tail(stack)
      /\ UNCHANGED << R, FP, S, N, F, todo, cur >>

Traverse == T1 \/ T2 \/ T2a \/ T3 \/ T4 \/ T5 \/ T6

M1 == /\ pc = "M1"
      /\ IF todo # {}
            THEN /\ \E s \in todo:
                      /\ todo' = todo \ {s}
                      /\ cur' = s
                 /\ pc' = "M2"
            ELSE /\ pc' = "Done"
                 /\ UNCHANGED << todo, cur >>
      /\ UNCHANGED << R, FP, S, N, F, stack, x, d, ys, y, top >>

M2 == /\ pc = "M2"
      /\ IF N[cur] = 0
            THEN /\ /\ stack' = << [ procedure |->  "Traverse",
                                     pc        |->  "M1",
                                     d         |->  d,
                                     ys        |->  ys,
                                     y         |->  y,
                                     top       |->  top,
                                     x         |->  x ] >>
                                 \o stack
                    /\ x' = cur
                 /\ d' = 0
                 /\ ys' = {}
                 /\ y' = 0
                 /\ top' = 0
                 /\ pc' = "T1"
            ELSE /\ pc' = "M1"
                 /\ UNCHANGED << stack, x, d, ys, y, top >>
      /\ UNCHANGED << R, FP, S, N, F, todo, cur >>

(* Allow infinite stuttering to prevent deadlock on termination. *)
Terminating == pc = "Done" /\ UNCHANGED vars

Next == Traverse \/ M1 \/ M2
           \/ Terminating

Spec == /\ Init /\ [][Next]_vars
        /\ WF_vars(Next)

Termination == <>(pc = "Done")

\* END TRANSLATION

RECURSIVE ReachFrom(_, _)
ReachFrom(Rel, Sx) == LET S2 == Sx \cup UNION {Rel[a] : a \in Sx} IN IF S2 = Sx THEN Sx ELSE ReachFrom(Rel, S2)
Closure(Rel, Fp, a) == UNION {Fp[b] : b \in ReachFrom(Rel, {a})}

DigraphCorrect == pc = "Done" => \A a \in Nodes : F[a] = Closure(R, FP, a)
\* while a node is on the stack its set only contains what it can reach
PartialSound   == \A a \in Nodes : F[a] \subseteq Closure(R, FP, a)
StackDistinct  == \A i, j \in DOMAIN S : S[i] = S[j] => i = j
Terminates     == <>(pc = "Done")
=============================================================================
