------------------------------ MODULE ConfLALR ------------------------------
(***************************************************************************)
(* Construction conformance, look-ahead / table level, on grammars recorded  *)
(* from real yaccgo runs:                                                    *)
(*   C03  recorded look-ahead sets = LALR(1) definition; warning iff an      *)
(*        unresolved conflict exists                                         *)
(*   C04  every two-candidate cell of the recorded dense table is resolved   *)
(*        as the yacc rules say                                              *)
(*   C05  the recorded packed arrays, looked up as the generated Action()    *)
(*        does, return the dense table                                       *)
(* plus the oracle's self check: LR(1)-merge definition = DeRemer-Pennello.  *)
(***************************************************************************)
EXTENDS LALR, PackTable, Json, FiniteSetsExt

Obs == JsonDeserialize("obs.json")

VARIABLE g
Init == g \in DOMAIN Obs
Next == UNCHANGED g
Spec == Init /\ [][Next]_g

G(i)  == Obs[i].g
Ok(i) == Obs[i].outcome = "ok"
ImplState(i, n) == SeqRange(Obs[i].states[n])

\* per accepted grammar: canonical states and both look-ahead computations
An == TLCEval([i \in DOMAIN Obs |->
        IF Ok(i) THEN TLCEval([s0 |-> States0(G(i)), def |-> LADef(G(i)), dp |-> LADP(G(i))])
        ELSE [s0 |-> {}, def |-> <<>>, dp |-> <<>>]])

\* recorded look-aheads as a function on (item set, rule)
ImplLA(i) ==
  LET recs == Obs[i].la
      pts == {<<ImplState(i, recs[k].q), recs[k].r>> : k \in DOMAIN recs}
  IN [p \in pts |-> UNION {SeqRange(recs[k].la) : k \in {k \in DOMAIN recs :
                              ImplState(i, recs[k].q) = p[1] /\ recs[k].r = p[2]}}]

SelfCheck == Ok(g) => An[g].def = An[g].dp

C03_Points == Ok(g) => DOMAIN ImplLA(g) = RedPoints(G(g), An[g].s0)
C03_LA     == Ok(g) => \A p \in DOMAIN ImplLA(g) \cap DOMAIN An[g].def : ImplLA(g)[p] = An[g].def[p]

AllTerms(i) == DeclTerms(G(i)) \cup {End}
C03_Warn == Ok(g) =>
  LET la == An[g].def S0 == An[g].s0 T == AllTerms(g)
      must == DefaultCells(G(g), la, S0, T) # {}
      murky == MurkyCells(G(g), la, S0, T) # {}
      dcrule == \E r \in DOMAIN G(g).rules : G(g).rules[r].precdc
  IN IF must THEN Obs[g].nwarn > 0
     ELSE IF murky \/ dcrule THEN TRUE
     ELSE Obs[g].nwarn = 0

-----------------------------------------------------------------------------
\* C04 on the recorded dense table, with the implementation's own look-aheads
Col(i, name) == CHOOSE c \in DOMAIN Obs[i].syms : Obs[i].syms[c] = name
StateNo(i, I) == CHOOSE n \in DOMAIN Obs[i].states : ImplState(i, n) = I
Decode(i, v) ==
  IF v = Obs[i].errcode THEN ErrAct
  ELSE IF v = Obs[i].acccode THEN AccAct
  ELSE IF v > 0 THEN [k |-> "s", n |-> v + 1]      \* 1-based target state
  ELSE [k |-> "r", n |-> 1 - v]                    \* 1-based rule
Expected(i, la, I, a) ==
  LET e == CellAct(G(i), la, I, a) IN
  IF e.k = "s" THEN [k |-> "s", n |-> StateNo(i, Goto0(G(i), I, a))] ELSE e
CellDC(i, la, I, a) ==
  \/ NCand(G(i), la, I, a) >= 3
  \/ NCand(G(i), la, I, a) = 2 /\ \E r \in CandReds(G(i), la, I, a) : G(i).rules[r].precdc
C04_Cells == Ok(g) =>
  LET la == ImplLA(g) IN
  \A n \in DOMAIN Obs[g].states : \A a \in AllTerms(g) :
     LET I == ImplState(g, n) IN
     (NCand(G(g), la, I, a) = 2 /\ ~CellDC(g, la, I, a)) =>
        LET e == Expected(g, la, I, a) IN
        e.k = "dc" \/ Decode(g, Obs[g].table[n][Col(g, a)]) = e
\* how many cells C04 actually judged (vacuity guard / evidence)
C04_Judged(i) ==
  IF ~Ok(i) THEN 0 ELSE
  LET la == ImplLA(i) IN
  Cardinality({<<n, a>> \in (DOMAIN Obs[i].states) \X AllTerms(i) :
     NCand(G(i), la, ImplState(i, n), a) = 2 /\ ~CellDC(i, la, ImplState(i, n), a)
     /\ CellAct(G(i), la, ImplState(i, n), a).k # "dc"})

-----------------------------------------------------------------------------
\* C05 (b): exported packed arrays vs dense table, every cell
C05_Packed == (Ok(g) /\ Obs[g].packed.need) =>
  LET p == Obs[g].packed IN
  \A s \in 0..(Len(Obs[g].table) - 1) : \A a \in 0..(Len(Obs[g].syms) - 1) :
     SplitLookup(p.act, p.off, p.chk, p.adef, p.gdef, Obs[g].nterm, Obs[g].errcode, s, a)
       = Obs[g].table[s + 1][a + 1]

SumOver(S, f(_)) == FoldSet(LAMBDA x, acc : acc + f(x), 0, S)
Stats == [n |-> Len(Obs),
          ok |-> Cardinality({i \in DOMAIN Obs : Ok(i)}),
          redpoints |-> SumOver({i \in DOMAIN Obs : Ok(i)}, LAMBDA i : Cardinality(DOMAIN An[i].def)),
          conflicted |-> Cardinality({i \in DOMAIN Obs : Ok(i) /\ ConflictCells(G(i), An[i].def, An[i].s0, AllTerms(i)) # {}}),
          judged04 |-> SumOver({i \in DOMAIN Obs : Ok(i)}, C04_Judged),
          packed |-> Cardinality({i \in DOMAIN Obs : Ok(i) /\ Obs[i].packed.need})]
PrintStats == PrintT(<<"STATS", Stats>>)
=============================================================================
