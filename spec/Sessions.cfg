CONSTANTS MaxHist = 6
SharedStack = FALSE
INIT HInit
NEXT HNext
INVARIANT IndependentAfterInit
CHECK_DEADLOCK FALSE
