CONSTANTS Elems = {"a", "b", "c"}
MapSites = {}
SPECIFICATION Spec
INVARIANT Deterministic
CHECK_DEADLOCK FALSE
