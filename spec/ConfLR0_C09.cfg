SPECIFICATION Spec
INVARIANT C09_Start
INVARIANT C09_States
INVARIANT C09_NoDup
INVARIANT C09_Trans
CHECK_DEADLOCK FALSE
