------------------------------ MODULE ConfLexer ------------------------------
(* Conformance of the real grammar-file lexer with the character-level model Lexer.tla: for every recorded text the
   tokens the real lexer sent (kind and text; the text of an error token is not compared) are exactly Tokens(text). *)
EXTENDS Lexer, Json
Obs == JsonDeserialize("obs.json")
VARIABLE m
Init == m \in DOMAIN Obs
Next == UNCHANGED m
Spec == Init /\ [][Next]_m
Lex_Conforms == Obs[m].toks = Tokens(Obs[m].text)
=============================================================================
