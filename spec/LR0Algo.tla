------------------------------ MODULE LR0Algo ------------------------------
(***************************************************************************)
(* The worklist construction of the LR(0) automaton as the code does it      *)
(* (Grammar/grammar.go: ComputeAllGoto / ComputeGotoItemNoneRec), as a state *)
(* machine: a growing list of item sets, a cursor, and per processed state   *)
(* its goto map.  One step = one call of ComputeGotoItemNoneRec: for every   *)
(* symbol after a dot in the current state the target item set is built      *)
(* (kernel of advanced items, closed), looked up by its FULL item set among  *)
(* the states registered so far and appended if new.  The order in which the *)
(* targets of one state are registered is left open between two orders       *)
(* (first occurrence in item order, and its reverse): before the repair of   *)
(* D6 it was Go's map order, and the numbering is not promised by C09.       *)
(* Checked for a set of grammars (corpus):                                   *)
(*   - every registered state is a state of the canonical collection,       *)
(*     no item set is registered twice (always);                            *)
(*   - on termination the list is exactly the canonical collection, state 1 *)
(*     is the start closure, and every goto map is Goto0.                   *)
(***************************************************************************)
EXTENDS LR0, Json, SequencesExt

Gs == JsonDeserialize("grammars.json")   \* sequence of [g |-> grammar]

VARIABLES gi, states, gotos, cur
vars == <<gi, states, gotos, cur>>
G == Gs[gi].g

\* symbols after a dot, in order of first occurrence when the items are sorted by (rule, dot)
ItemSeq(I) == SortSeq(SetToSeq(I), LAMBDA a, b : a[1] < b[1] \/ (a[1] = b[1] /\ a[2] < b[2]))
RECURSIVE FirstOcc(_, _, _)
FirstOcc(g, its, acc) ==
  IF its = <<>> THEN acc
  ELSE LET it == Head(its) IN
       IF Complete(g, it) \/ DotSym(g, it) \in SeqRange(acc) THEN FirstOcc(g, Tail(its), acc)
       ELSE FirstOcc(g, Tail(its), Append(acc, DotSym(g, it)))
SymOrder(g, I) == FirstOcc(g, ItemSeq(I), <<>>)

\* register the targets of state I for the symbols in `order`, one after the other
RECURSIVE Register(_, _, _, _, _)
Register(g, I, order, sts, gm) ==
  IF order = <<>> THEN [states |-> sts, gmap |-> gm]
  ELSE LET X == Head(order)
           T == Goto0(g, I, X)
           known == {j \in DOMAIN sts : sts[j] = T}
       IN IF known # {}
          THEN Register(g, I, Tail(order), sts, gm @@ (X :> CHOOSE j \in known : TRUE))
          ELSE Register(g, I, Tail(order), Append(sts, T), gm @@ (X :> Len(sts) + 1))

Init == /\ gi \in DOMAIN Gs
        /\ states = <<Start0(Gs[gi].g)>>
        /\ gotos = <<>>
        /\ cur = 1
Process ==
  /\ cur <= Len(states)
  /\ \E order \in {SymOrder(G, states[cur]), Reverse(SymOrder(G, states[cur]))} :
       LET r == Register(G, states[cur], order, states, << >>) IN
       /\ states' = r.states
       /\ gotos' = Append(gotos, r.gmap)
  /\ cur' = cur + 1
  /\ UNCHANGED gi
Next == Process
Spec == Init /\ [][Next]_vars /\ WF_vars(Process)

Canon == TLCEval([i \in DOMAIN Gs |-> States0(Gs[i].g)])
Sound     == SeqRange(states) \subseteq Canon[gi]
NoDup     == \A a, b \in DOMAIN states : states[a] = states[b] => a = b
Done      == cur > Len(states)
Complete0 == Done => /\ SeqRange(states) = Canon[gi]
                     /\ states[1] = Start0(G)
                     /\ Len(gotos) = Len(states)
                     /\ \A n \in DOMAIN states : \A X \in Syms(G) :
                          IF X \in NextSyms(G, states[n])
                          THEN X \in DOMAIN gotos[n] /\ states[gotos[n][X]] = Goto0(G, states[n], X)
                          ELSE X \notin DOMAIN gotos[n]
Terminates == <>Done
=============================================================================
