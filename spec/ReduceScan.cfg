SPECIFICATION ScanSpec
CONSTANT Alphabet = {36, 49, 50, 48, 97}
CONSTANT MaxLen = 6
INVARIANT ScanAgrees
INVARIANT ScanDone
INVARIANT TwoPassAgrees
CHECK_DEADLOCK FALSE
