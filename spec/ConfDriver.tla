------------------------------ MODULE ConfDriver ------------------------------
(***************************************************************************)
(* The LR driver (LRDriver.tla) instantiated with the dense tables recorded  *)
(* from real yaccgo runs, model-checked over every input up to a length      *)
(* bound for every recorded grammar:                                         *)
(*   C01  accept only with a valid derivation of the whole input;            *)
(*        goto never missing, stack never underflows                         *)
(*   C02  conflict-free LALR(1) grammar: every sentence is accepted          *)
(*   C06  conflict-free grammar: a non-sentence is rejected at the first bad *)
(*        token (same number of tokens fetched as the reference), no         *)
(*        divergence                                                         *)
(* The reference for C02/C06 is the specification's own LALR(1) table,       *)
(* itself checked against the LR-independent bounded language (OracleOK).    *)
(***************************************************************************)
EXTENDS LRDriver, Earley, PrecClimb, Json, FiniteSetsExt

CONSTANTS KMax,     \* longest input considered
          Limit,    \* at most this many inputs per grammar
          KLang     \* bound for the LR-independent oracle check (0 = off)

Obs == JsonDeserialize("obs.json")
G(i)  == Obs[i].g
Ok(i) == Obs[i].outcome = "ok"
OkIdx == {i \in DOMAIN Obs : Ok(i)}
ImplState(i, n) == SeqRange(Obs[i].states[n])
HasCol(i, name) == \E c \in DOMAIN Obs[i].syms : Obs[i].syms[c] = name
Col(i, name) == CHOOSE c \in DOMAIN Obs[i].syms : Obs[i].syms[c] = name
\* A declared symbol for which the implementation has no column can be neither shifted nor entered:
\* its cells read as error (a token the implementation lost therefore shows up as a language difference).
Cell(i, n, name) == IF HasCol(i, name) THEN Obs[i].table[n][Col(i, name)] ELSE Obs[i].errcode
AllTerms(i) == DeclTerms(G(i)) \cup {End}

Decode(i, v) ==
  IF v = Obs[i].errcode THEN ErrAct
  ELSE IF v = Obs[i].acccode THEN AccAct
  ELSE IF v > 0 THEN [k |-> "s", n |-> v + 1]
  ELSE [k |-> "r", n |-> 1 - v]
ImplTab(i) ==
  [ action |-> TLCEval([n \in DOMAIN Obs[i].table |-> TLCEval([a \in AllTerms(i) |-> Decode(i, Cell(i, n, a))])]),
    goto   |-> TLCEval([n \in DOMAIN Obs[i].table |-> TLCEval([A \in NT(G(i)) \ {G(i).rules[1].lhs} |->
                 LET v == Cell(i, n, A) IN IF v = Obs[i].errcode \/ v <= 0 THEN 0 ELSE v + 1])]) ]

RECURSIVE Pow(_, _)
Pow(b, e) == IF e = 0 THEN 1 ELSE b * Pow(b, e - 1)
NInputs(t, k) == FoldSet(LAMBDA e, acc : acc + Pow(t, e), 0, 0..k)
KOf(i) == LET t == Cardinality(DeclTerms(G(i))) IN
          IF t = 0 THEN 0 ELSE CHOOSE k \in 0..KMax : NInputs(t, k) <= Limit /\ (k = KMax \/ NInputs(t, k + 1) > Limit)
\* every terminal string up to the bound, plus the longer inputs the harness supplies
\* (random sentences of the grammar and single-token mutations of them)
Inputs(i) == UNION {[1..n -> DeclTerms(G(i))] : n \in 0..KOf(i)} \cup SeqRange(Obs[i].extra)

An == TLCEval([i \in DOMAIN Obs |-> IF Ok(i)
         THEN TLCEval([order |-> StateOrder(G(i), States0(G(i))), def |-> LADef(G(i))]) ELSE <<>>])
Tabs == TLCEval([i \in DOMAIN Obs |-> IF Ok(i)
         THEN TLCEval([impl |-> ImplTab(i), spec |-> SpecTabFrom(G(i), An[i].order, An[i].def)]) ELSE <<>>])

VARIABLES g, input, c
vars == <<g, input, c>>
Init == /\ g \in OkIdx
        /\ input \in Inputs(g)
        /\ c = InitCfg
Step == /\ c.status = "run"
        /\ c' = DStep(G(g), Tabs[g].impl, input, c)
        /\ UNCHANGED <<g, input>>
Next == Step
Spec == Init /\ [][Next]_vars /\ WF_vars(Step)

\* NB: heavy precomputed constants are referenced directly with the state
\* variable; going through a parameterised operator makes TLC re-evaluate them.
CFg == Tabs[g].spec.conflictfree
Ref == Run(G(g), Tabs[g].spec, input)      \* the specification's own LALR(1) table
ERef == EarleyRun(G(g), input)             \* LR-independent reference

C01_Sound     == c.status = "accept" => SoundCfg(G(g), input, c)
C01_NoStuck   == c.status \notin {"underflow", "nogoto"}
C01_Handles   == c.dok
\* (Ref is used here; SpecTabOK below establishes Ref = Earley for the very same input, so Earley is
\* evaluated once per input)
C02_Complete  == (CFg /\ c.status # "run" /\ Ref.status = "accept") => c.status = "accept"
C06_FirstBad  == (CFg /\ c.status # "run" /\ Ref.status = "error") => (c.status = "error" /\ c.pos = Ref.pos)
\* the specification's own table, driven by the spec driver, agrees with Earley
\* on every conflict-free grammar (cross-validation of LALR.tla + LRDriver.tla)
SpecTabOK     == (CFg /\ c = InitCfg) =>
                    LET r == Ref e == ERef IN
                    /\ r.status = e.status /\ r.pos = e.pos
                    /\ r.status = "accept" => SoundCfg(G(g), input, r)
C06_NoDiverge == CFg => c.status # "diverge"
\* on any grammar (conflicts or not) an input outside L(G) is never accepted
C06_NoFalseAccept == c.status = "accept" => ERef.status = "accept"
\* C04 at behaviour level: on a grammar whose conflicts are all decided by the
\* rules of C04, the recorded table parses every input exactly as the
\* specification's table (built with CellAct) does: same outcome, same
\* reductions, same number of tokens fetched.
C04_Behaviour == (Tabs[g].spec.decided /\ ~CFg /\ c.status # "run" /\ Ref.status # "diverge") =>
                    (c.status = Ref.status /\ c.reds = Ref.reds /\ c.pos = Ref.pos)
\* C04, last sentence, against a reference that knows nothing about LR: on a grammar of operator shape the
\* recorded table groups every expression as precedence climbing over the declarations does (PrecClimb.tla)
Shape == TLCEval([i \in DOMAIN Obs |-> Ok(i) /\ OpShape(G(i))])
CRef == Climb(G(g), input)
C04_Climb == (Shape[g] /\ c.status # "run") =>
                /\ c.status \in {"accept", "error"}
                /\ (c.status = "accept") <=> (CRef.status = "accept")
                /\ (c.status = "accept") => c.reds = CRef.reds
\* ... and so does the specification's own resolved table (cross-validation of CellAct against PrecClimb).
\* (no LET here: TLC evaluated the LET form of this invariant ten times slower)
C04_ClimbSpec == (Shape[g] /\ c = InitCfg) =>
                /\ (Ref.status = "accept") <=> (CRef.status = "accept")
                /\ (Ref.status = "accept") => Ref.reds = CRef.reds
Terminates    == <>(c.status # "run")

\* Oracle self-check: Earley membership = membership in the bounded language
\* computed as a least fixpoint (two independent definitions of L(G)).
\* (depends on Obs only: a constant that refers to another computed constant under a
\* bound variable is re-evaluated by TLC on every use)
Lang == TLCEval([i \in DOMAIN Obs |-> IF Ok(i) /\ KLang > 0 THEN LangK(G(i), KLang) ELSE {}])
OracleOK ==
  (KLang > 0 /\ c = InitCfg /\ Len(input) <= KLang) =>
     ((ERef.status = "accept") <=> (input \in Lang[g]))

\* one line per grammar for the evidence file (evaluated on the empty input's
\* initial state; always true)
Report == (c = InitCfg /\ input = <<>>) =>
            PrintT(<<"GRAMMAR", g, Tabs[g].spec.conflictfree, Cardinality(Inputs(g)), Tabs[g].spec.nstates, Tabs[g].spec.decided, Shape[g]>>)
=============================================================================
