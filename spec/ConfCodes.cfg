SPECIFICATION Spec
INVARIANT C11_Accepted
INVARIANT C11_AllPresent
INVARIANT C11_Numbering
INVARIANT C11_Consts
INVARIANT C11_Translate
INVARIANT C11_Built
CHECK_DEADLOCK FALSE
