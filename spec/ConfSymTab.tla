----------------------------- MODULE ConfSymTab -----------------------------
(* Conformance of the real visitors (Parser/Vistor.go) and symbol creation (BuildLALR1) with SymTab.tla: for every
   recorded text whose syntax tree was built, the symbols (name, token code, value tag, kind, precedence level and
   associativity), the rules with their precedence symbols and the start symbol of the grammar that the real front end
   hands to the LALR construction are those that Build(ast, sorted) computes from the real syntax tree; and the two
   front-end failures the model knows (a precedence line naming an unknown symbol, a rule using an undefined symbol)
   occur exactly when the model says so.  A run that fails later for another reason (C12) is not judged here. *)
EXTENDS SymTab, Json
Obs == JsonDeserialize("obs.json")
VARIABLE m
Init == m \in DOMAIN Obs
Next == UNCHANGED m
Spec == Init /\ [][Next]_m
Judged == Obs[m].ast.ok /\ Obs[m].sym.outcome \in {"ok", "undef", "precundef"}
SymTab_Outcome == Judged => Build(Obs[m].ast, Obs[m].sorted).outcome = Obs[m].sym.outcome
SymTab_Symbols == (Judged /\ Obs[m].sym.outcome = "ok") =>
                     {Obs[m].sym.symbols[k] : k \in DOMAIN Obs[m].sym.symbols} = Build(Obs[m].ast, Obs[m].sorted).symbols
SymTab_Rules   == (Judged /\ Obs[m].sym.outcome = "ok") =>
                     /\ Obs[m].sym.rules = Build(Obs[m].ast, Obs[m].sorted).rules
                     /\ Obs[m].sym.start = Build(Obs[m].ast, Obs[m].sorted).start
\* a failure the model predicts is never a success in the real code
SymTab_NoMiss  == (Obs[m].ast.ok /\ Obs[m].sym.outcome = "ok") => Build(Obs[m].ast, Obs[m].sorted).outcome = "ok"
=============================================================================
