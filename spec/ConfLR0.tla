------------------------------ MODULE ConfLR0 ------------------------------
(***************************************************************************)
(* Construction conformance, LR(0) level: the automaton recorded from a     *)
(* real yaccgo run (harness `observe`) against the canonical collection     *)
(* (C09), and the accept/reject outcome against Usable (C12).               *)
(* One behaviour per recorded grammar; TLC evaluates the invariants on each. *)
(***************************************************************************)
EXTENDS LR0, Json, FiniteSetsExt

Obs == JsonDeserialize("obs.json")

VARIABLE g
Init == g \in DOMAIN Obs
Next == UNCHANGED g
Spec == Init /\ [][Next]_g

G(i)  == Obs[i].g
Ok(i) == Obs[i].outcome = "ok"
ImplState(i, n) == SeqRange(Obs[i].states[n])
ImplStates(i)   == {ImplState(i, n) : n \in DOMAIN Obs[i].states}

\* canonical collection per accepted grammar, computed once
Canon == TLCEval([i \in DOMAIN Obs |-> IF Ok(i) THEN States0(G(i)) ELSE {}])

C09_Start  == Ok(g) => ImplState(g, 1) = Start0(G(g))
C09_States == Ok(g) => ImplStates(g) = Canon[g]
C09_NoDup  == Ok(g) => /\ Cardinality(ImplStates(g)) = Len(Obs[g].states)
                       /\ \A n \in DOMAIN Obs[g].states :
                            Cardinality(ImplState(g, n)) = Len(Obs[g].states[n])
C09_Trans  == Ok(g) =>
  \A n \in DOMAIN Obs[g].states :
    LET I == ImplState(g, n) gt == Obs[g].gotos[n] IN
    /\ {gt[k].sym : k \in DOMAIN gt} = NextSyms(G(g), I)
    /\ \A k1, k2 \in DOMAIN gt : gt[k1].sym = gt[k2].sym => k1 = k2
    /\ \A k \in DOMAIN gt :
         /\ gt[k].to \in DOMAIN Obs[g].states
         /\ ImplState(g, gt[k].to) = Goto0(G(g), I, gt[k].sym)

\* C12: generated exactly when usable; a refusal says why; never a crash/hang
C12_Iff   == Ok(g) <=> Usable(G(g))
C12_Diag  == ~Ok(g) => Obs[g].outcome \in {"panic", "error"} /\ Obs[g].diag # ""

\* statistics for the evidence file (printed once)
Stats == [n |-> Len(Obs),
          ok |-> Cardinality({i \in DOMAIN Obs : Ok(i)}),
          lr0states |-> FoldSet(LAMBDA i, acc : acc + Cardinality(Canon[i]), 0, {i \in DOMAIN Obs : Ok(i)})]
PrintStats == PrintT(<<"STATS", Stats>>)
=============================================================================
