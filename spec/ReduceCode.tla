------------------------------ MODULE ReduceCode ------------------------------
(***************************************************************************)
(* What the generated reduce function contains for one rule, as text.        *)
(*                                                                           *)
(* For rule k = A -> X1 ... Xn with action text s the generated file has one  *)
(* case k that                                                                *)
(*   - gives the new entry the symbol index of A,                             *)
(*   - opens a window Dollar of n+1 stack entries whose entry i is Xi         *)
(*     (written topIndex-n .. stack pointer),                                 *)
(*   - contains Subst(s): s with every "$$" replaced by the access path of    *)
(*     the left-hand side's union field and every "$" followed by a maximal   *)
(*     run of digits d replaced by the access path of entry d of the window   *)
(*     through the union field of X_d; everything else is copied - a '$'      *)
(*     before any other character, text in strings and comments included      *)
(*     (yaccgo substitutes there as well; that is its documented behaviour),  *)
(*   - pops n entries.                                                        *)
(* The scanner is given both as a function (Subst) and as a state machine     *)
(* (ReduceScan.tla) whose final output is Subst; ReduceScan.cfg checks the   *)
(* two against each other over all short texts of a small alphabet.           *)
(* Characters are code points (TLC strings are not sequences).                *)
(***************************************************************************)
EXTENDS Integers, Sequences

GoSelf == <<100, 111, 108, 108, 97, 114, 68, 111, 108, 97, 114, 46>>   \* "dollarDolar."
TsSelf == <<100, 111, 108, 108, 97, 114, 68, 111, 108, 97, 114, 46, 86, 97, 108, 84, 121, 112, 101, 46>>   \* "dollarDolar.ValType."
ArgOpen == <<68, 111, 108, 108, 97, 114, 91>>   \* "Dollar["
GoArgClose == <<93, 46>>   \* "]."
TsArgClose == <<93, 46, 86, 97, 108, 84, 121, 112, 101, 46>>   \* "].ValType."
DollarCh == 36

IsDigit(ch) == ch >= 48 /\ ch <= 57

RECURSIVE DigitsEnd(_, _)
DigitsEnd(s, i) == IF i <= Len(s) /\ IsDigit(s[i]) THEN DigitsEnd(s, i + 1) ELSE i

RECURSIVE NumVal(_, _, _, _)
NumVal(s, i, j, acc) == IF i >= j THEN acc ELSE NumVal(s, i + 1, j, acc * 10 + (s[i] - 48))

Paths(lang) == IF lang = "ts" THEN [self |-> TsSelf, close |-> TsArgClose]
                              ELSE [self |-> GoSelf, close |-> GoArgClose]

(* One step of the scanner at position i: <<text emitted, next position>>. *)
ScanStep(s, i, ltag, rtags, P) ==
  IF s[i] = DollarCh /\ i < Len(s) /\ s[i + 1] = DollarCh
    THEN <<P.self \o ltag, i + 2>>
  ELSE IF s[i] = DollarCh /\ i < Len(s) /\ IsDigit(s[i + 1])
    THEN LET j == DigitsEnd(s, i + 1)
             n == NumVal(s, i + 1, j, 0)
         IN <<ArgOpen \o SubSeq(s, i + 1, j - 1) \o P.close \o rtags[n], j>>
  ELSE <<<<s[i]>>, i + 1>>

RECURSIVE SubstFrom(_, _, _, _, _)
SubstFrom(s, i, ltag, rtags, P) ==
  IF i > Len(s) THEN <<>>
  ELSE LET st == ScanStep(s, i, ltag, rtags, P)
       IN st[1] \o SubstFrom(s, st[2], ltag, rtags, P)

Subst(s, ltag, rtags, lang) == SubstFrom(s, 1, ltag, rtags, Paths(lang))

(* every $d of s denotes a position of a right-hand side of length n *)
RECURSIVE ArgsInRangeFrom(_, _, _)
ArgsInRangeFrom(s, i, n) ==
  IF i > Len(s) THEN TRUE
  ELSE IF s[i] = DollarCh /\ i < Len(s) /\ s[i + 1] = DollarCh THEN ArgsInRangeFrom(s, i + 2, n)
  ELSE IF s[i] = DollarCh /\ i < Len(s) /\ IsDigit(s[i + 1])
    THEN LET j == DigitsEnd(s, i + 1) k == NumVal(s, i + 1, j, 0)
         IN k >= 1 /\ k <= n /\ ArgsInRangeFrom(s, j, n)
  ELSE ArgsInRangeFrom(s, i + 1, n)
ArgsInRange(s, n) == ArgsInRangeFrom(s, 1, n)

(* The action as quoted in the comment in front of the case: a comment end in it is broken up. *)
RECURSIVE QuoteFrom(_, _)
QuoteFrom(s, i) ==
  IF i > Len(s) THEN <<>>
  ELSE IF s[i] = 42 /\ i < Len(s) /\ s[i + 1] = 47 THEN <<42, 32, 47>> \o QuoteFrom(s, i + 2)
  ELSE <<s[i]>> \o QuoteFrom(s, i + 1)
QuoteComment(s) == QuoteFrom(s, 1)

(* Names of the stack and its pointer a case must use. *)
StackName(lang, object) == IF lang = "go" /\ object THEN "c.StackSym" ELSE "StateSymStack"
PosName(lang, object)   == IF lang = "go" /\ object THEN "c.Stackpos" ELSE "StackPointer"
=============================================================================
