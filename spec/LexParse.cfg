CONSTANTS N = 3
FIXED = TRUE
SPECIFICATION Spec
PROPERTY Terminates
CHECK_DEADLOCK FALSE
