SPECIFICATION Spec
INVARIANT Sound
INVARIANT NoDup
INVARIANT Complete0
PROPERTY Terminates
CHECK_DEADLOCK FALSE
