------------------------------ MODULE PackAlgo ------------------------------
(***************************************************************************)
(* The table packer (Utils/packtable.go) as a state machine with the code's  *)
(* grain: rows are taken in order of decreasing number of non-zero entries   *)
(* (stable), each is placed at the first displacement where none of its      *)
(* non-zero columns hits an occupied slot (PlaceRow), then the arrays are    *)
(* written (Output) and leading empty slots are trimmed (Trim).              *)
(* Checked exhaustively for all matrices up to MaxRows x MaxCols over Vals:  *)
(* on termination the result is Lossless; during placement no slot has two   *)
(* owners.                                                                   *)
(***************************************************************************)
EXTENDS PackTable, FiniteSets, TLC, SequencesExt, FiniteSetsExt

CONSTANTS MaxRows, MaxCols, Vals

VARIABLES T, order, k, off, owner, pc, act, chk
vars == <<T, order, k, off, owner, pc, act, chk>>

Matrices == UNION {[1..r -> [1..c -> Vals]] : <<r, c>> \in (1..MaxRows) \X (1..MaxCols)}
NRows == Len(T)
NCols == Len(T[1])
NZ(i) == {j \in 0..(NCols - 1) : T[i + 1][j + 1] # 0}            \* non-zero columns of row i (0-based)
Cnt(M, i) == Cardinality({j \in 1..Len(M[1]) : M[i + 1][j] # 0})
OrderOf(M) == SortSeq([n \in 1..Len(M) |-> n - 1],
                      LAMBDA a, b : Cnt(M, a) > Cnt(M, b) \/ (Cnt(M, a) = Cnt(M, b) /\ a < b))

Init == /\ T \in Matrices
        /\ order = OrderOf(T)
        /\ k = 1
        /\ off = [i \in 1..Len(T) |-> 0]
        /\ owner = << >>                    \* slot -> row owning it
        /\ pc = "place" /\ act = <<>> /\ chk = <<>>

Fits(i, d) == \A j \in NZ(i) : (d + j) \notin DOMAIN owner
PlaceRow == /\ pc = "place" /\ k <= Len(order)
            /\ LET i == order[k]
                   d == CHOOSE d \in 0..(Cardinality(DOMAIN owner) + NCols) :
                          Fits(i, d) /\ \A e \in 0..(d - 1) : ~Fits(i, e)
               IN /\ off' = [off EXCEPT ![i + 1] = d]
                  /\ owner' = [p \in DOMAIN owner \cup {d + j : j \in NZ(i)} |->
                                 IF p \in DOMAIN owner THEN owner[p] ELSE i]
            /\ k' = k + 1
            /\ UNCHANGED <<T, order, pc, act, chk>>

Output == /\ pc = "place" /\ k > Len(order)
          /\ LET maxIndex == IF DOMAIN owner = {} THEN 0 ELSE Max(DOMAIN owner) IN
             /\ act' = [p \in 1..(maxIndex + 1) |->
                          IF (p - 1) \in DOMAIN owner
                          THEN T[owner[p - 1] + 1][(p - 1) - off[owner[p - 1] + 1] + 1] ELSE 0]
             /\ chk' = [p \in 1..(maxIndex + 1) |-> IF (p - 1) \in DOMAIN owner THEN owner[p - 1] ELSE -1]
          /\ pc' = "trim"
          /\ UNCHANGED <<T, order, k, off, owner>>

Trim == /\ pc = "trim"
        /\ LET lead == IF \A p \in DOMAIN act : act[p] = 0 THEN Len(act)
                       ELSE (CHOOSE p \in DOMAIN act : act[p] # 0 /\ \A q \in 1..(p - 1) : act[q] = 0) - 1
           IN /\ act' = SubSeq(act, lead + 1, Len(act))
              /\ chk' = SubSeq(chk, lead + 1, Len(chk))
              /\ off' = [i \in DOMAIN off |-> off[i] - lead]
        /\ pc' = "done"
        /\ UNCHANGED <<T, order, k, owner>>

Next == PlaceRow \/ Output \/ Trim
Spec == Init /\ [][Next]_vars /\ WF_vars(Next)

PackLossless == pc = "done" => Lossless(T, act, off, chk)
\* a slot belongs to the row recorded for it: position p of row owner[p] is non-zero
OwnerSound   == pc # "done" => \A p \in DOMAIN owner : (p - off[owner[p] + 1]) \in NZ(owner[p])
Terminates   == <>(pc = "done")
=============================================================================
