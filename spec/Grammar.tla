------------------------------ MODULE Grammar ------------------------------
(***************************************************************************)
(* Context-free grammars as yaccgo sees them, and the LR-independent       *)
(* ground truth used by the properties: nullable / first / productive,     *)
(* usability (C12), the bounded language L_k(G) and its prefix language     *)
(* (C02, C06), and replay of a reduction sequence as a rightmost            *)
(* derivation (C01).                                                         *)
(*                                                                           *)
(* A grammar G is a record                                                   *)
(*   rules : Seq([lhs : STRING, rhs : Seq(STRING), prec : STRING])           *)
(*           rule 1 is the augmented rule  "$accept" -> S                    *)
(*   terms : Seq(STRING)  declared terminals (tokens and literals)           *)
(*   nts   : Seq(STRING)  nonterminals: every lhs, plus symbols declared      *)
(*           nonterminal by %type / %start even if they have no rule          *)
(*   tokprec : Seq([name, level, assoc])   precedence declarations           *)
(* The end marker is the string "$"; it is not a member of terms.            *)
(***************************************************************************)
EXTENDS Integers, Sequences, FiniteSets, TLC

SeqRange(s) == {s[i] : i \in DOMAIN s}

NR(G)        == DOMAIN G.rules
Lhs(G, r)    == G.rules[r].lhs
Rhs(G, r)    == G.rules[r].rhs
NT(G)        == {G.rules[i].lhs : i \in DOMAIN G.rules}
RhsSyms(G)   == UNION {SeqRange(G.rules[i].rhs) : i \in DOMAIN G.rules}
Syms(G)      == NT(G) \cup RhsSyms(G)
DeclTerms(G) == SeqRange(G.terms)
UsedTerms(G) == RhsSyms(G) \ NT(G)
RulesOf(G, A) == {r \in DOMAIN G.rules : G.rules[r].lhs = A}
StartSym(G)  == G.rules[1].rhs[1]
End          == "$"

(***************************************************************************)
(* Least fixpoints.                                                          *)
(***************************************************************************)
RECURSIVE NullFix(_, _)
NullFix(G, N) ==
  LET N2 == N \cup {G.rules[i].lhs : i \in {i \in DOMAIN G.rules :
                        \A j \in DOMAIN G.rules[i].rhs : G.rules[i].rhs[j] \in N}}
  IN IF N2 = N THEN N ELSE NullFix(G, N2)
Nullable(G) == NullFix(G, {})

\* Productive: derives some string of terminals.  T is the set of symbols
\* taken to be terminals (declared tokens).
RECURSIVE ProdFix(_, _, _)
ProdFix(G, T, P) ==
  LET P2 == P \cup {G.rules[i].lhs : i \in {i \in DOMAIN G.rules :
                        \A j \in DOMAIN G.rules[i].rhs : G.rules[i].rhs[j] \in P \cup T}}
  IN IF P2 = P THEN P ELSE ProdFix(G, T, P2)
Productive(G) == ProdFix(G, DeclTerms(G), {})

\* C12: every used symbol is a declared token or has a rule; every nonterminal
\* (reachable or not) derives some terminal string.
Undefined(G)    == RhsSyms(G) \ (NT(G) \cup DeclTerms(G))
DeclNT(G)       == SeqRange(G.nts)
Unproductive(G) == (NT(G) \cup DeclNT(G)) \ Productive(G)
Usable(G)       == Undefined(G) = {} /\ Unproductive(G) = {}

\* FIRST of a symbol sequence given nullable set Nl and FIRST function F on NT
FirstSeqWith(G, Nl, F, s) ==
  UNION { IF s[k] \in DOMAIN F THEN F[s[k]] ELSE {s[k]} :
            k \in {k \in DOMAIN s : \A j \in 1..(k-1) : s[j] \in Nl} }
RECURSIVE FirstFix(_, _, _)
FirstFix(G, Nl, F) ==
  LET F2 == [A \in NT(G) |-> F[A] \cup
               UNION {FirstSeqWith(G, Nl, F, G.rules[i].rhs) : i \in RulesOf(G, A)}]
  IN IF F2 = F THEN F ELSE FirstFix(G, Nl, F2)
First(G, Nl) == FirstFix(G, Nl, [A \in NT(G) |-> {}])
NullSeq(Nl, s) == \A j \in DOMAIN s : s[j] \in Nl

(***************************************************************************)
(* Bounded language.  L[A][n] = terminal strings of length exactly n         *)
(* derivable from A, for n in 0..K, as the least fixpoint of                 *)
(* length-indexed concatenation.  Independent of any LR construction.        *)
(***************************************************************************)
RECURSIVE SeqLang(_, _, _, _)
SeqLang(G, L, s, n) ==
  IF Len(s) = 0 THEN (IF n = 0 THEN {<<>>} ELSE {})
  ELSE LET X == Head(s) IN
       IF X \in NT(G)
       THEN UNION { { u \o v : u \in L[X][i], v \in SeqLang(G, L, Tail(s), n - i) } : i \in 0..n }
       ELSE IF n = 0 THEN {} ELSE { <<X>> \o v : v \in SeqLang(G, L, Tail(s), n - 1) }
RECURSIVE LangFix(_, _, _)
LangFix(G, K, L) ==
  LET L2 == [A \in NT(G) |-> [n \in 0..K |-> L[A][n] \cup
               UNION { SeqLang(G, L, G.rules[r].rhs, n) : r \in RulesOf(G, A) }]]
  IN IF L2 = L THEN L ELSE LangFix(G, K, L2)
LangTable(G, K) == LangFix(G, K, [A \in NT(G) |-> [n \in 0..K |-> {}]])
\* sentences of length <= K
LangK(G, K) == LET L == LangTable(G, K) IN UNION {L[G.rules[1].lhs][n] : n \in 0..K}

IsPrefixOf(u, w) == Len(u) <= Len(w) /\ \A i \in DOMAIN u : u[i] = w[i]

(***************************************************************************)
(* C01: a reduction sequence, read backwards, is a rightmost derivation of   *)
(* the whole inp.  Replay on a pure symbol stack -- no table consulted.    *)
(* events: sequence of [e |-> "T", tok |-> name] (token fetched; "$" for end)*)
(*                     [e |-> "R", rule |-> i]  (rule i of G, 2.. )          *)
(* A fetched token becomes the look-ahead; it is shifted when the next       *)
(* fetch happens.                                                            *)
(***************************************************************************)
RECURSIVE ReplayFrom(_, _, _, _, _)
\* st: symbol stack, lah: current look-ahead or "" (none yet), i: next event
ReplayFrom(G, ev, i, st, lah) ==
  IF i > Len(ev) THEN [ok |-> TRUE, stack |-> st, lah |-> lah]
  ELSE LET e == ev[i] IN
    IF e.e = "T"
    THEN ReplayFrom(G, ev, i + 1, IF lah = "" THEN st ELSE Append(st, lah), e.tok)
    ELSE LET rhs == Rhs(G, e.rule) n == Len(rhs) IN
         IF e.rule \in NR(G) /\ e.rule # 1 /\ Len(st) >= n
            /\ SubSeq(st, Len(st) - n + 1, Len(st)) = rhs
         THEN ReplayFrom(G, ev, i + 1, Append(SubSeq(st, 1, Len(st) - n), Lhs(G, e.rule)), lah)
         ELSE [ok |-> FALSE, stack |-> st, lah |-> lah, at |-> i]
Replay(G, ev) == ReplayFrom(G, ev, 1, <<>>, "")
\* an accepting run is sound iff its replay ends with exactly the start symbol
\* and look-ahead "$", and the tokens fetched are inp \o <<"$">>
SoundAccept(G, ev, inp) ==
  LET r == Replay(G, ev)
      fetched == SelectSeq(ev, LAMBDA e : e.e = "T")
  IN /\ r.ok
     /\ r.stack = <<StartSym(G)>>
     /\ r.lah = End
     /\ [i \in DOMAIN fetched |-> fetched[i].tok] = inp \o <<End>>
=============================================================================
