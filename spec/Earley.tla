------------------------------- MODULE Earley -------------------------------
(***************************************************************************)
(* An Earley recogniser: the LR-independent reference for membership (C02)   *)
(* and for the first token that cannot continue any sentence (C06).          *)
(* An Earley item is <<rule, dot, origin>>; chart[k] is the item set after    *)
(* k tokens (chart is a sequence indexed 1..k+1, chart[k+1] = set after k).   *)
(* For a usable grammar (every nonterminal productive) the prefix w[1..k] is *)
(* a prefix of some sentence iff the item set after k tokens is non-empty.   *)
(***************************************************************************)
EXTENDS Grammar

EDot(G, it)  == Rhs(G, it[1])[it[2] + 1]
EDone(G, it) == it[2] = Len(Rhs(G, it[1]))

\* close item set S (position k, 0-based) under prediction and completion;
\* chart holds the finished sets of positions 0..k-1
RECURSIVE EClose(_, _, _, _)
EClose(G, chart, k, S) ==
  LET pred == {<<r, 0, k>> : r \in {r \in DOMAIN G.rules :
                   \E it \in S : ~EDone(G, it) /\ EDot(G, it) = G.rules[r].lhs}}
      setAt(o) == IF o = k THEN S ELSE chart[o + 1]
      comp == UNION { {<<p[1], p[2] + 1, p[3]>> : p \in {p \in setAt(it[3]) :
                          ~EDone(G, p) /\ EDot(G, p) = Lhs(G, it[1])}}
                      : it \in {it \in S : EDone(G, it)} }
      S2 == S \cup pred \cup comp
  IN IF S2 = S THEN S ELSE EClose(G, chart, k, S2)
EScan(G, S, a) == {<<it[1], it[2] + 1, it[3]>> : it \in {it \in S : ~EDone(G, it) /\ EDot(G, it) = a}}

RECURSIVE EChart(_, _, _)
\* extend chart (sets for positions 0..Len(chart)-1) over the rest of w; stop at the first empty set
EChart(G, w, chart) ==
  LET k == Len(chart) IN   \* next position to build (k tokens consumed)
  IF k > Len(w) \/ chart[k] = {} THEN chart
  ELSE EChart(G, w, Append(chart, EClose(G, chart, k, EScan(G, chart[k], w[k]))))

\* [status |-> "accept" | "error", pos |-> tokens fetched by a parser that
\*  stops exactly at the first bad token (the end marker counts as a token)]
EarleyRun(G, w) ==
  LET ch == EChart(G, w, <<EClose(G, <<>>, 0, {<<1, 0, 0>>})>>)
      last == ch[Len(ch)]
  IN IF last = {} THEN [status |-> "error", pos |-> Len(ch) - 1]
     ELSE IF <<1, 1, 0>> \in last THEN [status |-> "accept", pos |-> Len(w) + 1]
     ELSE [status |-> "error", pos |-> Len(w) + 1]
=============================================================================
