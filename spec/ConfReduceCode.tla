--------------------------- MODULE ConfReduceCode ---------------------------
(***************************************************************************)
(* C07, text level: the cases cut out of the reduce function of every       *)
(* generated variant (go, go -u, go -o, go -o -u, typescript) against        *)
(* ReduceCode.tla.  obs.json is written by `harness actobs`.                 *)
(***************************************************************************)
EXTENDS ReduceCode, TLC, Json
Obs == JsonDeserialize("obs.json")
VARIABLE m
Init == m \in DOMAIN Obs
Next == UNCHANGED m
Spec == Init /\ [][Next]_m
O == Obs[m]
R == O.rules
OKV == {v \in DOMAIN O.variants : O.variants[v].ok}

RC_Population == \A k \in DOMAIN R : ArgsInRange(R[k].act, R[k].n)
RC_OneCasePerRule ==
  \A v \in OKV : LET cs == O.variants[v].cases IN
     Len(cs) = Len(R) /\ \A k \in DOMAIN cs : cs[k].rule = k
RC_Window ==
  \A v \in OKV : LET cs == O.variants[v].cases IN
     \A k \in DOMAIN cs : k \in DOMAIN R => (cs[k].window = R[k].n /\ cs[k].pop = R[k].n)
RC_Stack ==
  \A v \in OKV : LET V == O.variants[v] IN
     Len(V.cases) > 0 => (V.stack = StackName(V.lang, V.object) /\ V.pos = PosName(V.lang, V.object))
RC_Body ==
  \A v \in OKV : LET V == O.variants[v] cs == V.cases IN
     \A k \in DOMAIN cs : k \in DOMAIN R => cs[k].body = Subst(R[k].act, R[k].ltag, R[k].rtags, V.lang)
RC_Comment ==
  \A v \in OKV : LET cs == O.variants[v].cases IN
     \A k \in DOMAIN cs : k \in DOMAIN R => cs[k].cmt = QuoteComment(R[k].act)
RC_SymIndex ==
  \A v \in OKV : LET cs == O.variants[v].cases IN
     \A j, k \in DOMAIN cs : (j \in DOMAIN R /\ k \in DOMAIN R) =>
        ((cs[j].symidx = cs[k].symidx) <=> (R[j].lhs = R[k].lhs))
=============================================================================
