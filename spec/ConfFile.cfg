SPECIFICATION Spec
INVARIANT C10_Accepted
INVARIANT C10_Rules
INVARIANT C10_Start
INVARIANT C10_Tokens
INVARIANT C10_Code
INVARIANT C10_Output
CHECK_DEADLOCK FALSE
