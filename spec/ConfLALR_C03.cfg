SPECIFICATION Spec
INVARIANT SelfCheck
INVARIANT C03_Points
INVARIANT C03_LA
INVARIANT C03_Warn
CHECK_DEADLOCK FALSE
