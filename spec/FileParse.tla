------------------------------ MODULE FileParse ------------------------------
(***************************************************************************)
(* The grammar-file parser (Parser/Parser.go) as a function from the token   *)
(* stream to the syntax tree, with the code's loop structure and its token   *)
(* buffer: next() / backup() / backup2() over a three-slot array, receive on *)
(* the closed channel = EOF.  Companion of LexParse.tla (which abstracts the  *)
(* same loops to token kinds and proves termination) and of Lexer.tla (text  *)
(* -> tokens).  ConfParse.tla compares Parse(tokens) with the tree the real  *)
(* Parse() built for the same text.                                          *)
(*                                                                           *)
(* A token is [kind, val, line, chars]; chars spells val one character per   *)
(* element (TLC cannot index strings).  The tree:                            *)
(*   [ok, code, union, start, tokendefs, precdefs, typedefs, rules]          *)
(*   tokendefs : Seq(Seq([name, value, tag, alias]))   one entry per         *)
(*               declaration site (a %token line, or the implicit            *)
(*               declarations of a precedence line / a group of rules)       *)
(*   precdefs  : Seq(Seq([name, assoc]))     assoc 1 left, 2 right, 3 none   *)
(*   typedefs  : Seq([tag, name])                                            *)
(*   rules     : Seq([left, line, right : Seq([t, e]), prec])   t: 1 symbol, *)
(*               2 action                                                    *)
(***************************************************************************)
EXTENDS Integers, Sequences, FiniteSets, TLC

EOFTok == [kind |-> "EOF", val |-> "", line |-> 0, chars |-> <<>>]

\* ---- character codes (ASCII 32..126) and decimal numbers
AsciiSeq == <<" ","!","\"","#","$","%","&","'","(",")","*","+",",","-",".","/","0","1","2","3","4","5","6","7","8","9",":",";","<","=",">","?",
              "@","A","B","C","D","E","F","G","H","I","J","K","L","M","N","O","P","Q","R","S","T","U","V","W","X","Y","Z","[","\\","]","^","_",
              "`","a","b","c","d","e","f","g","h","i","j","k","l","m","n","o","p","q","r","s","t","u","v","w","x","y","z","{","|","}","~">>
CodeOf(ch) == IF ch = "\n" THEN 10 ELSE IF ch = "\t" THEN 9
              ELSE IF \E i \in DOMAIN AsciiSeq : AsciiSeq[i] = ch THEN (CHOOSE i \in DOMAIN AsciiSeq : AsciiSeq[i] = ch) + 31 ELSE -1
DigitVal(ch) == CodeOf(ch) - 48
IsDigits(cs) == Len(cs) > 0 /\ \A i \in DOMAIN cs : DigitVal(cs[i]) \in 0..9
RECURSIVE DecVal(_, _)
DecVal(cs, acc) == IF cs = <<>> THEN acc ELSE DecVal(Tail(cs), acc * 10 + DigitVal(Head(cs)))
\* strconv.Atoi on the token text; the code keeps 0 when Atoi fails ("-" alone); values stay small in the texts used
Atoi(cs) == IF IsDigits(cs) /\ Len(cs) <= 8 THEN DecVal(cs, 0)
            ELSE IF Len(cs) > 1 /\ cs[1] = "-" /\ IsDigits(Tail(cs)) /\ Len(cs) <= 9 THEN 0 - DecVal(Tail(cs), 0)
            ELSE 0
TempName(v) == "$operator" \o v

\* ---- the token buffer.  p = [toks, li, a0, a1, peek, cur, tdm, err]
Recv(p) == IF p.li <= Len(p.toks) THEN p.toks[p.li] ELSE EOFTok
NextTok(p) ==
  IF p.peek > 0
  THEN [p EXCEPT !.peek = p.peek - 1, !.cur = IF p.peek - 1 = 1 THEN p.a1 ELSE p.a0]
  ELSE [p EXCEPT !.li = p.li + 1, !.a0 = Recv(p), !.cur = Recv(p)]
Backup(p) == [p EXCEPT !.peek = p.peek + 1]
Backup2(p, t1) == [p EXCEPT !.a1 = t1, !.peek = 2]
Is(p, k) == p.cur.kind = k
Expect(p, k) == IF Is(p, k) THEN NextTok(p) ELSE [p EXCEPT !.err = TRUE]
InitP(toks) == NextTok([toks |-> toks, li |-> 1, a0 |-> EOFTok, a1 |-> EOFTok, peek |-> 0, cur |-> EOFTok, tdm |-> {}, err |-> FALSE])

\* optional <tag> prefix: after it cur is the token following '>'
TagPrefix(p) ==
  IF Is(p, "LeftAngleBracket")
  THEN LET p1 == NextTok(p) p2 == NextTok(p1) IN [p |-> Expect(p2, "RightAngleBracket"), tag |-> p1.cur.val]
  ELSE [p |-> p, tag |-> ""]

Ident(name, value, tag, alias) == [name |-> name, value |-> value, tag |-> tag, alias |-> alias]

\* ---- parseTokendef: cur = %token
RECURSIVE TokendefLoop(_, _, _)
TokendefLoop(p, tag, acc) ==
  IF Is(p, "Identifier")
  THEN LET name == p.cur.val
           p1 == NextTok(p)
           isnum == Is(p1, "Number")
           isalias == Is(p1, "Charater") \/ Is(p1, "StringKind")
           id == Ident(name, IF isnum THEN Atoi(p1.cur.chars) ELSE 0, tag, IF isalias THEN p1.cur.val ELSE "")
           p2 == IF isnum \/ isalias THEN p1 ELSE Backup(p1)
       IN TokendefLoop(NextTok([p2 EXCEPT !.tdm = @ \cup {name}]), tag, Append(acc, id))
  ELSE IF Is(p, "Charater")
  THEN LET name == TempName(p.cur.val)
           id == Ident(name, CodeOf(p.cur.chars[1]), tag, p.cur.val)
       IN TokendefLoop(NextTok([p EXCEPT !.tdm = @ \cup {name}]), tag, Append(acc, id))
  ELSE [p |-> p, def |-> acc]
Tokendef(p) == LET tp == TagPrefix(NextTok(p)) IN TokendefLoop(tp.p, tp.tag, <<>>)

\* ---- parsePrecList: cur = %left | %right | %nonassoc | %precedence
RECURSIVE PrecLoop(_, _, _, _, _)
PrecLoop(p, tag, assoc, defs, implicit) ==
  LET p1 == NextTok(p) IN
  IF Is(p1, "Identifier") \/ Is(p1, "Charater")
  THEN LET lit == Is(p1, "Charater")
           name == IF lit THEN TempName(p1.cur.val) ELSE p1.cur.val
           new == name \notin p1.tdm
           imp == IF new THEN Append(implicit, Ident(name, IF lit THEN CodeOf(p1.cur.chars[1]) ELSE 0, tag, "")) ELSE implicit
       IN PrecLoop([p1 EXCEPT !.tdm = @ \cup {name}], tag, assoc, Append(defs, [name |-> name, assoc |-> assoc]), imp)
  ELSE [p |-> p1, defs |-> defs, implicit |-> implicit]
PrecList(p) ==
  LET assoc == IF Is(p, "LeftAssoc") THEN 1 ELSE IF Is(p, "RightAssoc") THEN 2 ELSE 3
      tp == TagPrefix(NextTok(p))
  IN PrecLoop(Backup(tp.p), tp.tag, assoc, <<>>, <<>>)

\* ---- parseTypeList: cur = %type
RECURSIVE TypeLoop(_, _, _)
TypeLoop(p, tag, acc) ==
  IF Is(p, "Identifier") THEN TypeLoop(NextTok(p), tag, Append(acc, [tag |-> tag, name |-> p.cur.val]))
  ELSE [p |-> IF acc = <<>> THEN [p EXCEPT !.err = TRUE] ELSE p, defs |-> acc]
TypeList(p) ==
  LET p1 == NextTok(p) IN
  IF Is(p1, "LeftAngleBracket") THEN LET tp == TagPrefix(p1) IN TypeLoop(tp.p, tp.tag, <<>>)
  ELSE TypeLoop([p1 EXCEPT !.err = TRUE], "", <<>>)

\* ---- parseDeclare.  d accumulates the declaration node.
RECURSIVE DeclareLoop(_, _)
DeclareLoop(p, d) ==
  IF Is(p, "EOF") \/ Is(p, "Section") THEN [p |-> p, d |-> d, ok |-> TRUE]
  ELSE IF Is(p, "Error") THEN [p |-> p, d |-> d, ok |-> FALSE]
  ELSE LET d1 == IF Is(p, "UnionDirective") THEN [d EXCEPT !.union = p.cur.val]
                 ELSE IF Is(p, "CodeQuote") THEN [d EXCEPT !.code = @ \o p.cur.val] ELSE d
       IN
       IF Is(p, "TokenDirective")
       THEN LET r == Tokendef(p) IN DeclareLoop(r.p, [d1 EXCEPT !.tokendefs = Append(@, r.def)])
       ELSE IF Is(p, "LeftAssoc") \/ Is(p, "RightAssoc") \/ Is(p, "NoneAssoc") \/ Is(p, "Precedence")
       THEN LET r == PrecList(p) IN
            DeclareLoop(r.p, [d1 EXCEPT !.precdefs = Append(@, r.defs),
                                        !.tokendefs = IF r.implicit = <<>> THEN @ ELSE Append(@, r.implicit)])
       ELSE IF Is(p, "TypeDirective")
       THEN LET r == TypeList(p) IN DeclareLoop(r.p, [d1 EXCEPT !.typedefs = @ \o r.defs])
       ELSE IF Is(p, "StartDirective")
       THEN LET p1 == NextTok(p) IN
            IF Is(p1, "Identifier") THEN DeclareLoop(NextTok(p1), [d1 EXCEPT !.start = p1.cur.val])
            ELSE DeclareLoop(NextTok([p1 EXCEPT !.err = TRUE]), [d1 EXCEPT !.start = ""])
       ELSE DeclareLoop(NextTok(p), d1)

\* ---- parseRule
Sym(e) == [t |-> 1, e |-> e]
Act(e) == [t |-> 2, e |-> e]
NewRule(left, line) == [left |-> left, line |-> line, right |-> <<>>, prec |-> ""]
RECURSIVE RuleLoop(_, _, _, _, _)
\* rule: the alternative being built, res: finished alternatives of this call, implicit: literal tokens first seen here
RuleLoop(p, left, rule, res, implicit) ==
  LET t1 == p.cur
      pa == NextTok(p)
      t2 == pa.cur
      pb == Backup2(pa, t1)
  IN
  IF t1.kind = "RuleEnd" \/ (t1.kind = "Identifier" /\ t2.kind = "RuleDefine")
  THEN LET pc == NextTok(pb)
           pd == IF Is(pc, "RuleEnd") THEN NextTok(pc) ELSE pc
       IN [p |-> pd, res |-> Append(res, rule), implicit |-> implicit, nil |-> FALSE]
  ELSE LET q == NextTok(pb) k == q.cur.kind IN
       IF k = "Charater"
       THEN LET name == TempName(q.cur.val)
                new == name \notin q.tdm
                imp == IF new THEN Append(implicit, Ident(name, CodeOf(q.cur.chars[1]), "", "")) ELSE implicit
            IN RuleLoop(NextTok([q EXCEPT !.tdm = @ \cup {name}]), left, [rule EXCEPT !.right = Append(@, Sym(name))], res, imp)
       ELSE IF k = "Identifier"
       THEN RuleLoop(NextTok(q), left, [rule EXCEPT !.right = Append(@, Sym(q.cur.val))], res, implicit)
       ELSE IF k = "ActionQuote"
       THEN RuleLoop(NextTok(q), left, [rule EXCEPT !.right = Append(@, Act(q.cur.val))], res, implicit)
       ELSE IF k = "RuleOR"
       THEN RuleLoop(NextTok(q), left, NewRule(left, q.cur.line), Append(res, rule), implicit)
       ELSE IF k = "PrecDirective"
       THEN LET q1 == NextTok(q) IN
            IF Is(q1, "Identifier") THEN RuleLoop(NextTok(q1), left, [rule EXCEPT !.prec = q1.cur.val], res, implicit)
            ELSE IF Is(q1, "Charater") THEN RuleLoop(NextTok(q1), left, [rule EXCEPT !.prec = TempName(q1.cur.val)], res, implicit)
            ELSE [p |-> [q1 EXCEPT !.err = TRUE], res |-> <<>>, implicit |-> <<>>, nil |-> TRUE]   \* return nil: this call's rules are dropped
       ELSE [p |-> q, res |-> Append(res, rule), implicit |-> implicit, nil |-> FALSE]
ParseRule(p) ==
  IF ~Is(p, "Identifier") THEN [p |-> Backup(p), res |-> <<>>, implicit |-> <<>>, nil |-> TRUE]
  ELSE LET left == p.cur.val
           p1 == Expect(NextTok(p), "RuleDefine")
       IN RuleLoop(p1, left, NewRule(left, p1.cur.line), <<>>, <<>>)

RECURSIVE RulesLoop(_, _, _)
RulesLoop(p, rules, tokendefs) ==
  LET r == ParseRule(p) IN
  IF r.nil THEN [p |-> r.p, rules |-> rules, tokendefs |-> tokendefs]
  ELSE RulesLoop(r.p, rules \o r.res, IF r.implicit = <<>> THEN tokendefs ELSE Append(tokendefs, r.implicit))

Failed == [ok |-> FALSE, code |-> "", union |-> "", start |-> "", tokendefs |-> <<>>, precdefs |-> <<>>, typedefs |-> <<>>, rules |-> <<>>]
Parse(toks) ==
  LET d0 == [code |-> "", union |-> "", start |-> "start", tokendefs |-> <<>>, precdefs |-> <<>>, typedefs |-> <<>>]
      dr == DeclareLoop(InitP(toks), d0)
  IN IF ~dr.ok \/ ~Is(dr.p, "Section") THEN Failed
     ELSE LET rr == RulesLoop(NextTok(dr.p), <<>>, dr.d.tokendefs) IN
          IF ~Is(rr.p, "Section") /\ ~Is(rr.p, "EOF") THEN Failed
          ELSE [ok |-> TRUE, code |-> dr.d.code, union |-> dr.d.union, start |-> dr.d.start,
                tokendefs |-> rr.tokendefs, precdefs |-> dr.d.precdefs, typedefs |-> dr.d.typedefs, rules |-> rr.rules]
=============================================================================
