------------------------------- MODULE SymTab -------------------------------
(***************************************************************************)
(* From the syntax tree of a grammar file (FileParse.tla) to the symbols     *)
(* and rules of the grammar that is handed to the LALR construction:         *)
(* Parser/Vistor.go as a sequence of folds, in the order the code works.     *)
(*                                                                           *)
(*   1. %token lists (and the implicit definitions that precedence lines     *)
(*      and rules add to them): first mention creates the entry, a later     *)
(*      mention overrides alias / tag / number where it gives one            *)
(*   2. %type: sets the tag of a known name, creates a nonterminal otherwise *)
(*   3. precedence lines: one level per line, every name must be known       *)
(*   4. the start symbol (default name "start") is created if unknown        *)
(*   5. every entry without a number gets the next free number, in name      *)
(*      order (C11: automatic codes lie above every explicit / literal code)  *)
(*   6. rules: an unknown left-hand side becomes a nonterminal (numbered in   *)
(*      rule order); every right-hand-side name must be known; the rule's     *)
(*      precedence symbol is the LAST right-hand-side name that stands on a   *)
(*      precedence line, overridden by an explicit %prec (which gives none   *)
(*      if its name stands on no precedence line)                             *)
(*                                                                           *)
(* `sorted` is the list of all names in the order of Go's sort.Strings       *)
(* (TLA+ has no order on strings; the harness supplies it).                  *)
(* Names of operators, parameters and LET definitions carry the prefix st    *)
(* (see DESIGN.md 0.3 on TLC's constant caching).                            *)
(***************************************************************************)
EXTENDS Integers, Sequences, FiniteSets

STPut(stF, stN, stR) == [x \in DOMAIN stF \cup {stN} |-> IF x = stN THEN stR ELSE stF[x]]
STMax(stA, stB) == IF stA > stB THEN stA ELSE stB
RECURSIVE STFlat(_)
STFlat(stSS) == IF stSS = <<>> THEN <<>> ELSE Head(stSS) \o STFlat(Tail(stSS))

STInit == [tab |-> <<>>, idmax |-> 2, precs |-> <<>>, err |-> ""]

\* 1. one identifier of a %token list
STTok(stS, stId) ==
  LET mx == STMax(stS.idmax, stId.value) IN
  IF stId.name \in DOMAIN stS.tab
  THEN LET old == stS.tab[stId.name]
           new == [old EXCEPT !.alias = IF stId.alias # "" THEN stId.alias ELSE @,
                              !.tag   = IF stId.tag # "" THEN stId.tag ELSE @,
                              !.value = IF stId.value # 0 THEN stId.value ELSE @]
       IN [stS EXCEPT !.tab = STPut(@, stId.name, new), !.idmax = mx]
  ELSE [stS EXCEPT !.tab = STPut(@, stId.name, [typ |-> "T", tag |-> stId.tag, value |-> stId.value, alias |-> stId.alias]),
                   !.idmax = mx]

RECURSIVE STToks(_, _)
STToks(stS, stSeq) == IF stSeq = <<>> THEN stS ELSE STToks(STTok(stS, Head(stSeq)), Tail(stSeq))

\* 2. one name of a %type list
STType(stS, stTd) ==
  IF stTd.name \in DOMAIN stS.tab
  THEN [stS EXCEPT !.tab = STPut(@, stTd.name, [stS.tab[stTd.name] EXCEPT !.tag = stTd.tag])]
  ELSE [stS EXCEPT !.tab = STPut(@, stTd.name, [typ |-> "N", tag |-> stTd.tag, value |-> 0, alias |-> ""])]

RECURSIVE STTypes(_, _)
STTypes(stS, stSeq) == IF stSeq = <<>> THEN stS ELSE STTypes(STType(stS, Head(stSeq)), Tail(stSeq))

\* 3. precedence lines; precs: sequence of [name, level, assoc]
RECURSIVE STPrecLines(_, _, _)
STPrecLines(stS, stLines, stLevel) ==
  IF stLines = <<>> THEN stS
  ELSE LET line == Head(stLines)
           bad == \E k \in DOMAIN line : line[k].name \notin DOMAIN stS.tab
           add == [k \in DOMAIN line |-> [name |-> line[k].name, level |-> stLevel, assoc |-> line[k].assoc]]
       IN IF bad THEN [stS EXCEPT !.err = "precundef"]
          ELSE STPrecLines([stS EXCEPT !.precs = @ \o add], Tail(stLines), stLevel + 1)

\* 4. start symbol
STStart(stS, stName) ==
  IF stName # "" /\ stName \notin DOMAIN stS.tab
  THEN [stS EXCEPT !.tab = STPut(@, stName, [typ |-> "N", tag |-> "", value |-> 0, alias |-> ""])]
  ELSE stS

\* 5. automatic numbers in name order
STNumber(stS, stName) ==
  IF stName \in DOMAIN stS.tab /\ stS.tab[stName].value = 0
  THEN [stS EXCEPT !.idmax = @ + 1, !.tab = STPut(@, stName, [stS.tab[stName] EXCEPT !.value = stS.idmax + 1])]
  ELSE stS

RECURSIVE STNumbers(_, _)
STNumbers(stS, stSeq) == IF stSeq = <<>> THEN stS ELSE STNumbers(STNumber(stS, Head(stSeq)), Tail(stSeq))

Declare(stAst, stSorted) ==
  LET s1 == STToks(STInit, STFlat(stAst.tokendefs))
      s2 == STTypes(s1, stAst.typedefs)
      s3 == STPrecLines(s2, stAst.precdefs, 1)
      s4 == STStart(s3, stAst.start)
  IN IF s3.err # "" THEN s3 ELSE STNumbers(s4, stSorted)

\* the precedence entry that counts for a name: the last one
STPrecOf(stS, stName) ==
  LET ks == {k \in DOMAIN stS.precs : stS.precs[k].name = stName} IN
  IF ks = {} THEN [level |-> 0, assoc |-> 0]
  ELSE LET k == CHOOSE k \in ks : \A j \in ks : j <= k IN [level |-> stS.precs[k].level, assoc |-> stS.precs[k].assoc]

\* 6a. left-hand sides
STLeft(stS, stRule) ==
  IF stRule.left \in DOMAIN stS.tab THEN stS
  ELSE [stS EXCEPT !.idmax = @ + 1, !.tab = STPut(@, stRule.left, [typ |-> "N", tag |-> "", value |-> stS.idmax + 1, alias |-> ""])]

RECURSIVE STLefts(_, _)
STLefts(stS, stSeq) == IF stSeq = <<>> THEN stS ELSE STLefts(STLeft(stS, Head(stSeq)), Tail(stSeq))

\* 6b. one rule: [lhs, rhs, prec] (prec = "" : none)
STSymsOf(stRule) == LET ks == {k \in DOMAIN stRule.right : stRule.right[k].t = 1} IN
                    [k \in 1..Cardinality(ks) |-> stRule.right[CHOOSE j \in ks : Cardinality({i \in ks : i <= j}) = k].e]
STRuleOf(stS, stRule) ==
  LET rhs == STSymsOf(stRule)
      withp == {k \in DOMAIN rhs : STPrecOf(stS, rhs[k]).level > 0}
      implicit == IF withp = {} THEN "" ELSE rhs[CHOOSE k \in withp : \A j \in withp : j <= k]
      prec == IF stRule.prec # "" THEN (IF STPrecOf(stS, stRule.prec).level > 0 THEN stRule.prec ELSE "") ELSE implicit
  IN [lhs |-> stRule.left, rhs |-> rhs, prec |-> prec]

Build(stAst, stSorted) ==
  LET d == Declare(stAst, stSorted) IN
  IF d.err # "" THEN [outcome |-> d.err, symbols |-> {}, rules |-> <<>>, start |-> ""]
  ELSE
  LET s == STLefts(d, stAst.rules)
      undef == \E k \in DOMAIN stAst.rules : \E j \in DOMAIN stAst.rules[k].right :
                  stAst.rules[k].right[j].t = 1 /\ stAst.rules[k].right[j].e \notin DOMAIN s.tab
      lefts == {stAst.rules[k].left : k \in DOMAIN stAst.rules}
  IN IF undef THEN [outcome |-> "undef", symbols |-> {}, rules |-> <<>>, start |-> ""]
     ELSE [outcome |-> "ok",
           \* an entry numbered -1 (the end marker's code) is dropped
           symbols |-> {[name |-> n, value |-> s.tab[n].value, tag |-> s.tab[n].tag,
                         nt |-> (s.tab[n].typ = "N" \/ n \in lefts),
                         level |-> IF s.tab[n].typ = "T" THEN STPrecOf(s, n).level ELSE 0,
                         assoc |-> IF s.tab[n].typ = "T" THEN STPrecOf(s, n).assoc ELSE 0] :
                        n \in {n \in DOMAIN s.tab : s.tab[n].value # -1}},
           rules |-> [k \in DOMAIN stAst.rules |-> STRuleOf(s, stAst.rules[k])],
           start |-> stAst.start]
=============================================================================
