SPECIFICATION Spec
INVARIANT SymTab_Outcome
INVARIANT SymTab_Symbols
INVARIANT SymTab_Rules
INVARIANT SymTab_NoMiss
CHECK_DEADLOCK FALSE
