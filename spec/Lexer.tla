------------------------------- MODULE Lexer -------------------------------
(***************************************************************************)
(* The grammar-file lexer (Parser/Lex.go) at character level, as the chain   *)
(* of state functions the code is: rootState, CommentState,                  *)
(* ActionQuoteState, charaterState, stringKindState, IdentifyState,          *)
(* ActionState, DirectiveState / DirectiveOtherState, CodeQuoteBegin,        *)
(* DirectiveUnionState.  A text is a sequence of one-character strings       *)
(* (ASCII); positions are 0-based like l.start / l.end in the code.          *)
(* The model is deliberately "as the code is", quirks included:              *)
(*   - "/*/" already closes a block comment;                                 *)
(*   - '\' inside quotes: only \' is an escape and the closing quote is      *)
(*     then left unconsumed;                                                 *)
(*   - after '$' one character is consumed before the words accept / end     *)
(*     are tried;                                                            *)
(*   - an unknown directive word or a '$' error does not reset the token     *)
(*     start, so the next token's text begins at the stale start;            *)
(*   - "%}" must be followed by white space or the end of the text.          *)
(* A lexical error is a token of kind "Error" after which the token stream   *)
(* ends (the unterminated block comment offers Error tokens for ever in the  *)
(* code; the stream is cut after the first one here and in the recording).   *)
(* Conformance: ConfLexer.tla compares Tokens(text) with the tokens the real *)
(* lexer sent for the same text (hook VerifLex).                             *)
(***************************************************************************)
EXTENDS Integers, Sequences, TLC

Letters == {"a","b","c","d","e","f","g","h","i","j","k","l","m","n","o","p","q","r","s","t","u","v","w","x","y","z",
            "A","B","C","D","E","F","G","H","I","J","K","L","M","N","O","P","Q","R","S","T","U","V","W","X","Y","Z"}
Digits  == {"0","1","2","3","4","5","6","7","8","9"}
EOFc    == "<eof>"

\* character at 0-based position p, or EOFc
At(t, p) == IF p < Len(t) THEN t[p + 1] ELSE EOFc
RECURSIVE Join(_, _, _)
Join(t, a, b) == IF a >= b THEN "" ELSE t[a + 1] \o Join(t, a + 1, b)      \* text[a:b]
StartsWith(t, p, w) == \A i \in 1..Len(w) : At(t, p + i - 1) = w[i]

Tok(kind, val) == [kind |-> kind, val |-> val]

\* acceptRun(valid): first position >= p whose character is not in valid
RECURSIVE SkipSet(_, _, _)
SkipSet(t, p, S) == IF At(t, p) \in S THEN SkipSet(t, p + 1, S) ELSE p

\* acceptOnlyAlphaWord(word) at end position p: position after the word, or -1
AlphaWord(t, p, w) ==
  LET q == SkipSet(t, p, {" "}) IN
  IF StartsWith(t, q, w) /\ At(t, q + Len(w)) \notin Letters THEN q + Len(w) ELSE -1
\* acceptWord(word): must be followed by blank, tab, newline or end of text
PlainWord(t, p, w) ==
  LET q == SkipSet(t, p, {" "}) IN
  IF StartsWith(t, q, w) /\ At(t, q + Len(w)) \in {" ", "\t", "\n", EOFc} THEN q + Len(w) ELSE -1

\* ---- the state functions.  Each returns [toks |-> tokens emitted, st |-> start, en |-> end, stop |-> BOOLEAN]
\* for one visit; Run below chains them as l.run() does.
Res(toks, st, en, stop) == [toks |-> toks, st |-> st, en |-> en, stop |-> stop]
ErrTok == Tok("Error", "")

RECURSIVE LineCommentEnd(_, _)
LineCommentEnd(t, p) == IF At(t, p) = "\n" \/ At(t, p) = EOFc THEN (IF At(t, p) = EOFc THEN p ELSE p + 1) ELSE LineCommentEnd(t, p + 1)
\* block comment scan starting with the '/' of "/*" unread (as the code does); result: end position or -1 (unterminated)
RECURSIVE BlockCommentEnd(_, _)
BlockCommentEnd(t, p) ==
  IF At(t, p) = EOFc THEN -1
  ELSE IF At(t, p) = "*"
       THEN (IF At(t, p + 1) = "/" THEN p + 2
             ELSE IF At(t, p + 1) = "*" THEN BlockCommentEnd(t, p + 1)      \* backup: the second star may start the terminator
             ELSE IF At(t, p + 1) = EOFc THEN -1
             ELSE BlockCommentEnd(t, p + 2))
       ELSE BlockCommentEnd(t, p + 1)
Comment(t, st, en) ==
  IF StartsWith(t, en, <<"/", "/">>) THEN LET q == LineCommentEnd(t, en) IN Res(<<>>, q, q, FALSE)
  ELSE LET q == BlockCommentEnd(t, en) IN
       IF q = -1 THEN Res(<<ErrTok>>, st, en, TRUE) ELSE Res(<<>>, q, q, FALSE)

RECURSIVE BraceEnd(_, _, _)
\* position after the brace that brings depth to 0, or -1
BraceEnd(t, p, depth) ==
  IF At(t, p) = EOFc THEN -1
  ELSE IF At(t, p) = "{" THEN BraceEnd(t, p + 1, depth + 1)
  ELSE IF At(t, p) = "}" THEN (IF depth = 1 THEN p + 1 ELSE BraceEnd(t, p + 1, depth - 1))
  ELSE BraceEnd(t, p + 1, depth)

ActionQuote(t, st, en) ==      \* '{' already consumed
  LET q == BraceEnd(t, en, 1) IN
  IF q = -1 THEN Res(<<ErrTok>>, st, en, TRUE) ELSE Res(<<Tok("ActionQuote", Join(t, st, q))>>, q, q, FALSE)

Charater(t, st, en) ==         \* opening quote already consumed
  IF At(t, en) # "\\"
  THEN (IF At(t, en) # EOFc /\ At(t, en + 1) = "'"
        THEN Res(<<Tok("Charater", At(t, en))>>, en + 2, en + 2, FALSE)
        ELSE Res(<<ErrTok>>, st, en, TRUE))
  ELSE (IF At(t, en + 1) = "'" THEN Res(<<Tok("Charater", "'")>>, en + 2, en + 2, FALSE)
        ELSE Res(<<ErrTok>>, st, en, TRUE))

RECURSIVE StringScan(_, _, _)
\* returns [ok, val, en]; p: position of the next character to read
StringScan(t, p, acc) ==
  IF At(t, p) = "\"" THEN [ok |-> TRUE, val |-> acc, en |-> p + 1]
  ELSE IF At(t, p) = EOFc THEN [ok |-> FALSE, val |-> acc, en |-> p]
  ELSE IF At(t, p) = "\\"
       THEN (IF At(t, p + 1) = "\"" THEN StringScan(t, p + 2, acc \o "\"")
             ELSE StringScan(t, IF At(t, p + 1) = EOFc THEN p + 1 ELSE p + 2, acc \o "\\"))   \* the character after '\' is dropped
       ELSE StringScan(t, p + 1, acc \o At(t, p))
StringKind(t, st, en) ==
  LET r == StringScan(t, en, "") IN
  IF r.ok THEN Res(<<Tok("StringKind", r.val)>>, r.en, r.en, FALSE) ELSE Res(<<ErrTok>>, st, en, TRUE)

Identify(t, st, en) ==
  LET q == SkipSet(t, en, Letters \cup Digits \cup {"_"}) IN Res(<<Tok("Identifier", Join(t, st, q))>>, q, q, FALSE)

Action(t, st, en) ==           \* '$' consumed; one more character is consumed first
  LET r == At(t, en) e1 == IF r = EOFc THEN en ELSE en + 1 IN
  IF r = "$" THEN Res(<<Tok("ActionSelf", Join(t, st, e1))>>, e1, e1, FALSE)
  ELSE IF r \in Digits THEN LET q == SkipSet(t, e1, Digits) IN Res(<<Tok("ActionN", Join(t, st, q))>>, q, q, FALSE)
  ELSE IF AlphaWord(t, e1, <<"a","c","c","e","p","t">>) # -1
       THEN LET q == AlphaWord(t, e1, <<"a","c","c","e","p","t">>) IN Res(<<Tok("ActionAccept", Join(t, st, q))>>, q, q, FALSE)
  ELSE IF AlphaWord(t, e1, <<"e","n","d">>) # -1
       THEN LET q == AlphaWord(t, e1, <<"e","n","d">>) IN Res(<<Tok("ActionEnd", Join(t, st, q))>>, q, q, FALSE)
  ELSE Res(<<ErrTok>>, st, e1, TRUE)      \* (the code goes on lexing after this error; the recording stops at it)

RECURSIVE CodeQuoteScan(_, _)
\* position after "%}" or -1; p = current end
CodeQuoteScan(t, p) ==
  LET q == SkipSet(t, p, {"\t", "\n", " "}) IN
  IF PlainWord(t, q, <<"%", "}">>) # -1 THEN PlainWord(t, q, <<"%", "}">>)
  ELSE IF At(t, q) = EOFc THEN -1
  ELSE CodeQuoteScan(t, q + 1)
CodeQuote(t, st, en) ==        \* "%{" consumed
  LET q == CodeQuoteScan(t, en) IN
  IF q = -1 THEN Res(<<ErrTok>>, st, en, TRUE) ELSE Res(<<Tok("CodeQuote", Join(t, en, q - 2))>>, q, q, FALSE)

RECURSIVE SkipToUnionBrace(_, _)
\* skip blanks, tabs, newlines and comments; result: position of the first other character, or -1 (unterminated comment)
SkipToUnionBrace(t, p) ==
  IF At(t, p) \in {" ", "\t", "\n"} THEN SkipToUnionBrace(t, p + 1)
  ELSE IF StartsWith(t, p, <<"/", "/">>) THEN SkipToUnionBrace(t, LineCommentEnd(t, p))
  ELSE IF StartsWith(t, p, <<"/", "*">>)
       THEN (LET q == BlockCommentEnd(t, p) IN IF q = -1 THEN -1 ELSE SkipToUnionBrace(t, q))
  ELSE p
Union(t, st, en) ==            \* "%union" consumed
  LET p == SkipToUnionBrace(t, en) IN
  IF p = -1 \/ At(t, p) # "{" THEN Res(<<ErrTok>>, st, en, TRUE)
  ELSE LET q == BraceEnd(t, p + 1, 1) IN
       IF q = -1 THEN Res(<<ErrTok>>, st, en, TRUE)
       ELSE Res(<<Tok("UnionDirective", Join(t, p + 1, q - 1))>>, q, q, FALSE)

DirectiveWords == << <<<<"t", "y", "p", "e">>, "TypeDirective">>,
                     <<<<"t", "o", "k", "e", "n">>, "TokenDirective">>,
                     <<<<"u", "n", "i", "o", "n">>, "UNION">>,
                     <<<<"l", "e", "f", "t">>, "LeftAssoc">>,
                     <<<<"r", "i", "g", "h", "t">>, "RightAssoc">>,
                     <<<<"n", "o", "n", "a", "s", "s", "o", "c">>, "NoneAssoc">>,
                     <<<<"p", "r", "e", "c">>, "PrecDirective">>,
                     <<<<"p", "r", "e", "c", "e", "d", "e", "n", "c", "e">>, "Precedence">>,
                     <<<<"s", "t", "a", "r", "t">>, "StartDirective">> >>
RECURSIVE DirectiveOther(_, _, _, _)
DirectiveOther(t, st, en, k) ==
  IF k > Len(DirectiveWords) THEN Res(<<>>, st, en, FALSE)          \* unknown word: nothing emitted, start NOT reset
  ELSE LET q == AlphaWord(t, en, DirectiveWords[k][1]) IN
       IF q = -1 THEN DirectiveOther(t, st, en, k + 1)
       ELSE IF DirectiveWords[k][2] = "UNION" THEN Union(t, st, q)
       ELSE Res(<<Tok(DirectiveWords[k][2], Join(t, st, q))>>, q, q, FALSE)
Directive(t, st, en) ==        \* '%' consumed
  IF At(t, en) = "%" THEN Res(<<Tok("Section", Join(t, st, en + 1))>>, en + 1, en + 1, FALSE)
  ELSE IF At(t, en) = "{" THEN CodeQuote(t, st, en + 1)
  ELSE DirectiveOther(t, st, en, 1)

Root(t, st, en) ==
  IF StartsWith(t, en, <<"/", "/">>) \/ StartsWith(t, en, <<"/", "*">>) THEN Comment(t, st, en)
  ELSE LET r == At(t, en) e1 == en + 1 IN
  IF r = EOFc THEN Res(<<Tok("EOF", "")>>, st, en, TRUE)
  ELSE IF r = "%" THEN Directive(t, st, e1)
  ELSE IF r = "$" THEN Action(t, st, e1)
  ELSE IF r = "|" THEN Res(<<Tok("RuleOR", Join(t, st, e1))>>, e1, e1, FALSE)
  ELSE IF r = ":" THEN Res(<<Tok("RuleDefine", Join(t, st, e1))>>, e1, e1, FALSE)
  ELSE IF r = ";" THEN Res(<<Tok("RuleEnd", Join(t, st, e1))>>, e1, e1, FALSE)
  ELSE IF r \in {" ", "\t", "\n"} THEN Res(<<>>, e1, e1, FALSE)
  ELSE IF r = "'" THEN Charater(t, st, e1)
  ELSE IF r = "\"" THEN StringKind(t, st, e1)
  ELSE IF r \in Letters \cup {"_"} THEN Identify(t, st, e1)
  ELSE IF r = "<" THEN Res(<<Tok("LeftAngleBracket", Join(t, st, e1))>>, e1, e1, FALSE)
  ELSE IF r = ">" THEN Res(<<Tok("RightAngleBracket", Join(t, st, e1))>>, e1, e1, FALSE)
  ELSE IF r \in Digits THEN LET q == SkipSet(t, en, Digits) IN Res(<<Tok("Number", Join(t, st, q))>>, q, q, FALSE)
  ELSE IF r = "-" THEN LET q == SkipSet(t, e1, Digits) IN Res(<<Tok("Number", Join(t, st, q))>>, q, q, FALSE)
  ELSE IF r = "{" THEN ActionQuote(t, st, e1)
  ELSE Res(<<ErrTok>>, st, en, TRUE)

RECURSIVE Run(_, _, _, _)
Run(t, st, en, acc) ==
  LET r == Root(t, st, en) IN
  IF r.stop THEN acc \o r.toks ELSE Run(t, r.st, r.en, acc \o r.toks)
Tokens(t) == Run(t, 0, 0, <<>>)
=============================================================================
