---------------------------- MODULE ConfLateTrace ----------------------------
(***************************************************************************)
(* C17, switching the trace on during a parse.  IsTrace is a variable of    *)
(* the generated parser that the user may set at any time - also from a      *)
(* semantic action.  From the moment it is on, every parser action is        *)
(* printed.  Each observation pairs two runs of one generated Go parser on   *)
(* one input: `full` with IsTrace on from the start (the run RunTrace17.tla  *)
(* validates line by line) and `late` with IsTrace switched on by the first  *)
(* executed action (its log line is kind "R").  The late run must print      *)
(* exactly what the full run prints, minus the trace lines in front of that  *)
(* first action.                                                             *)
(***************************************************************************)
EXTENDS Integers, Sequences, TLC, Json
Obs == JsonDeserialize("obs.json")
VARIABLE m
Init == m \in DOMAIN Obs
Next == UNCHANGED m
Spec == Init /\ [][Next]_m
O == Obs[m]

FirstAction(f) == IF \E i \in DOMAIN f : f[i].k = "R"
                  THEN CHOOSE i \in DOMAIN f : f[i].k = "R" /\ \A j \in 1..(i - 1) : f[j].k # "R"
                  ELSE Len(f) + 1
RECURSIVE Visible(_, _, _)
Visible(f, i, on) == IF i > Len(f) THEN <<>>
                     ELSE IF f[i].k = "trace" /\ i < on THEN Visible(f, i + 1, on)
                     ELSE <<f[i]>> \o Visible(f, i + 1, on)
C17_LateTrace == O.late = Visible(O.full, 1, FirstAction(O.full))
(* vacuity guard, read by the check: runs in which lines were hidden and lines were shown *)
Interesting == \E i \in DOMAIN O.full : O.full[i].k = "trace" /\ i > FirstAction(O.full)
=============================================================================
