SPECIFICATION Spec
INVARIANT C05_Packed
CHECK_DEADLOCK FALSE
