----------------------------- MODULE TokenCodes -----------------------------
(***************************************************************************)
(* C11: token numbering and the lexer interface.                             *)
(* A declaration mix D is a sequence of terminals [name, kind, num] with     *)
(* kind "lit" (num = character code), "explicit" (num = declared number) or  *)
(* "auto".  A numbering is a function code : names -> Int.                   *)
(***************************************************************************)
EXTENDS Integers, Sequences, FiniteSets

Names(D) == {D[i].name : i \in DOMAIN D}
EndCode == -1

\* the numbering rules
RuleLiteral(D, code)  == \A i \in DOMAIN D : D[i].kind = "lit" => code[D[i].name] = D[i].num
RuleExplicit(D, code) == \A i \in DOMAIN D : D[i].kind = "explicit" => code[D[i].name] = D[i].num
RuleDistinct(D, code) == /\ \A i, j \in DOMAIN D : i # j => code[D[i].name] # code[D[j].name]
                         /\ \A i \in DOMAIN D : code[D[i].name] # EndCode
WellNumbered(D, code) == RuleLiteral(D, code) /\ RuleExplicit(D, code) /\ RuleDistinct(D, code)

\* the user's part of the bargain: explicit numbers distinct from each other and from literal codes
UserOK(D) == \A i, j \in DOMAIN D : (i # j /\ D[i].kind # "auto" /\ D[j].kind # "auto") => D[i].num # D[j].num

\* translate as a relation: the set of <<code, symbol>> pairs that do not map to the error symbol
ExpectedTranslate(D, code) == {<<code[D[i].name], D[i].name>> : i \in DOMAIN D} \cup {<<EndCode, "$">>}
=============================================================================
