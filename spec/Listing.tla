------------------------------- MODULE Listing -------------------------------
(***************************************************************************)
(* C18: what the debug listing and the automaton diagram must contain, as a  *)
(* function of the tables of the same run.                                   *)
(* From a dense table (rows = states, columns = symbols) the automaton that  *)
(* the generated parser implements is read off: transitions are the          *)
(* positive (shift / goto) cells, reductions with their look-aheads are the  *)
(* negative cells, the accepting state holds the accept code.  Items are     *)
(* printed as token lists  lhs -> a b @ c  ("@" marks the dot; the diagram    *)
(* shows an empty right-hand side as <eps>).                                  *)
(***************************************************************************)
EXTENDS LR0

ItemTokens(G, it) ==
  LET rhs == Rhs(G, it[1]) IN
  <<Lhs(G, it[1]), "->">> \o SubSeq(rhs, 1, it[2]) \o <<"@">> \o SubSeq(rhs, it[2] + 1, Len(rhs))
DiagramItemTokens(G, it) ==
  IF Len(Rhs(G, it[1])) = 0 THEN <<Lhs(G, it[1]), "->", "<eps>">> ELSE ItemTokens(G, it)

\* o: one recorded run (table, syms, errcode, acccode); n: 1-based state
TabTrans(o, n) == {<<o.syms[c], o.table[n][c] + 1>> : c \in {c \in DOMAIN o.syms :
                      o.table[n][c] > 0 /\ o.table[n][c] # o.errcode /\ o.table[n][c] # o.acccode}}
TabReds(o, n)  == {<<o.syms[c], 1 - o.table[n][c]>> : c \in {c \in DOMAIN o.syms : o.table[n][c] < 0}}
AccStates(o)   == {n \in DOMAIN o.table : \E c \in DOMAIN o.syms : o.table[n][c] = o.acccode}
=============================================================================
