------------------------------ MODULE ConfParse ------------------------------
(* Conformance of the real grammar-file parser with FileParse.tla: for every recorded text, the syntax tree the real
   Parse() built (or its failure) equals Parse(tokens) of the model, where tokens is what the real lexer sent. *)
EXTENDS FileParse, Json
Obs == JsonDeserialize("obs.json")
VARIABLE m
Init == m \in DOMAIN Obs
Next == UNCHANGED m
Spec == Init /\ [][Next]_m
Parse_Conforms == Obs[m].ast = Parse(Obs[m].toks)
=============================================================================
