CONSTANT SharedStack = FALSE
SPECIFICATION Spec
INVARIANT Isolated
CHECK_DEADLOCK FALSE
