SPECIFICATION Spec
INVARIANT C01_Run
INVARIANT C02_Run
INVARIANT C06_Run
INVARIANT C07_Value
INVARIANT C08_Agree
INVARIANT C05_Agree
POSTCONDITION TraceAccepted
CHECK_DEADLOCK FALSE
