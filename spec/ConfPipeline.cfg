INIT CInit
NEXT CNext
INVARIANT C19_Obs_Untouched
INVARIANT C19_Obs_Complete
INVARIANT C19_Obs_Known
CHECK_DEADLOCK FALSE
