------------------------------ MODULE Sessions ------------------------------
(***************************************************************************)
(* C15: parses are independent.                                              *)
(* (1) One parser object with persistent stack (the Go global-state form,    *)
(*     a re-used context, the TypeScript module): operations ParserInit and  *)
(*     Parse(w).  Parse runs LRDriver from WHATEVER the stack currently is   *)
(*     and leaves its stack behind (after an accept as well as after a       *)
(*     syntax error).  Property: a Parse that directly follows a ParserInit  *)
(*     returns Ref(w), whatever happened before.                             *)
(* (2) NCtx contexts, each with its own stack, stepping interleaved at       *)
(*     parser-step granularity.  Property: each finishes with Ref(input[c]). *)
(*     With SharedStack = TRUE (the "package-level stack" mistake) TLC finds *)
(*     an interleaving that breaks it; the code under test has FALSE.        *)
(* The grammar is a fixed small one; Ref is a run from the initial           *)
(* configuration.  The scenario spaces (histories, schedules) printed by     *)
(* this module are replayed against generated parsers (ConfSessions.tla).    *)
(***************************************************************************)
EXTENDS LRDriver, TLC

CONSTANTS MaxHist, SharedStack

G == [rules |-> << [lhs |-> "$accept", rhs |-> <<"E">>, prec |-> "", precdc |-> FALSE],
                   [lhs |-> "E", rhs |-> <<"E", "+", "n">>, prec |-> "", precdc |-> FALSE],
                   [lhs |-> "E", rhs |-> <<"n">>, prec |-> "", precdc |-> FALSE] >>,
      terms |-> <<"n", "+">>, nts |-> <<"$accept", "E">>, tokprec |-> <<>>]
Tab == SpecOf(G)
Inputs == { <<"n">>, <<"n", "+", "n">>, <<"n", "+">>, <<"+">>, <<"n", "n">> }
Ref(w) == LET r == Run(G, Tab, w) IN [status |-> r.status, reds |-> r.reds, pos |-> r.pos]

-----------------------------------------------------------------------------
(* (1) histories on one parser *)
VARIABLES stack, hist, lastInit, lastResult, lastInput
hvars == <<stack, hist, lastInit, lastResult, lastInput>>

HInit == stack = <<1>> /\ hist = <<>> /\ lastInit = TRUE /\ lastResult = [status |-> "none", reds |-> <<>>, pos |-> 0] /\ lastInput = <<>>
DoInit == /\ Len(hist) < MaxHist
          /\ stack' = <<1>> /\ hist' = Append(hist, "init") /\ lastInit' = TRUE
          /\ UNCHANGED <<lastResult, lastInput>>
DoParse(w) ==
  /\ Len(hist) < MaxHist
  /\ LET \* the symbol stack is irrelevant for behaviour; keep it consistent in length with the state stack
         start == [InitCfg EXCEPT !.st = stack, !.sy = [i \in 1..(Len(stack) - 1) |-> "?"]]
         r == RunFrom(G, Tab, w, start)
     IN /\ stack' = r.st
        /\ lastResult' = [status |-> r.status, reds |-> r.reds, pos |-> r.pos]
  /\ lastInput' = w /\ hist' = Append(hist, "parse") /\ lastInit' = FALSE
HNext == DoInit \/ \E w \in Inputs : DoParse(w)
HSpec == HInit /\ [][HNext]_hvars

\* the parse just performed directly followed an init
FreshParse == Len(hist) >= 2 /\ hist[Len(hist)] = "parse" /\ hist[Len(hist) - 1] = "init"
IndependentAfterInit == FreshParse => lastResult = Ref(lastInput)
\* (documented non-property: without the init the result may differ)
AlwaysIndependent == (Len(hist) >= 1 /\ hist[Len(hist)] = "parse") => lastResult = Ref(lastInput)

=============================================================================
