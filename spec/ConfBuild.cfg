SPECIFICATION Spec
INVARIANT C16_Builds
INVARIANT C16_Generates
INVARIANT C16_RunsAtAll
CHECK_DEADLOCK FALSE
