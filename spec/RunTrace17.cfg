SPECIFICATION Spec
INVARIANT C17_Truth
INVARIANT C17_AcceptState
POSTCONDITION TraceAccepted
CHECK_DEADLOCK FALSE
