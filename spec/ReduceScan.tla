------------------------------ MODULE ReduceScan ------------------------------
(***************************************************************************)
(* The substitution scanner of ReduceCode.tla as a state machine over one    *)
(* text (actions CopyChar, SubstSelf, SubstArg), checked against the         *)
(* function Subst and against the two-pass reading the implementation uses,  *)
(* over all texts up to MaxLen of a small alphabet.                          *)
(***************************************************************************)
EXTENDS ReduceCode

CONSTANTS Alphabet, MaxLen
VARIABLES text, pos, outp
scanVars == <<text, pos, outp>>

RECURSIVE SeqsUpTo(_)
SeqsUpTo(n) == IF n = 0 THEN {<<>>} ELSE LET S == SeqsUpTo(n - 1) IN S \cup {Append(t, ch) : t \in S, ch \in Alphabet}

MLTag  == <<108>>                     \* "l"
MRTags == <<<<112>>, <<113>>>>        \* "p", "q": a right-hand side of length 2

ScanInit == /\ text \in {t \in SeqsUpTo(MaxLen) : ArgsInRange(t, 2)}
            /\ pos = 1 /\ outp = <<>>
CopyChar  == /\ pos <= Len(text)
             /\ ~(text[pos] = DollarCh /\ pos < Len(text) /\ (text[pos + 1] = DollarCh \/ IsDigit(text[pos + 1])))
             /\ outp' = Append(outp, text[pos]) /\ pos' = pos + 1 /\ UNCHANGED text
SubstSelf == /\ pos < Len(text) /\ text[pos] = DollarCh /\ text[pos + 1] = DollarCh
             /\ outp' = outp \o GoSelf \o MLTag /\ pos' = pos + 2 /\ UNCHANGED text
SubstArg  == /\ pos < Len(text) /\ text[pos] = DollarCh /\ IsDigit(text[pos + 1])
             /\ LET j == DigitsEnd(text, pos + 1) n == NumVal(text, pos + 1, j, 0)
                IN /\ outp' = outp \o ArgOpen \o SubSeq(text, pos + 1, j - 1) \o GoArgClose \o MRTags[n]
                   /\ pos' = j
             /\ UNCHANGED text
ScanNext == CopyChar \/ SubstSelf \/ SubstArg
ScanSpec == ScanInit /\ [][ScanNext]_scanVars

(* the machine's output is a prefix computation of the function, and equals it at the end *)
ScanAgrees == outp \o SubstFrom(text, pos, MLTag, MRTags, Paths("go")) = Subst(text, MLTag, MRTags, "go")
ScanDone   == pos > Len(text) => outp = Subst(text, MLTag, MRTags, "go")
(* two-pass reading (all "$$" first, then all "$d") gives the same text: what the implementation does *)
RECURSIVE PassSelf(_, _)
PassSelf(s, i) == IF i > Len(s) THEN <<>>
                  ELSE IF s[i] = DollarCh /\ i < Len(s) /\ s[i + 1] = DollarCh THEN <<0>> \o PassSelf(s, i + 2)
                  ELSE <<s[i]>> \o PassSelf(s, i + 1)
RECURSIVE PassArgs(_, _)
PassArgs(s, i) == IF i > Len(s) THEN <<>>
                  ELSE IF s[i] = 0 THEN GoSelf \o MLTag \o PassArgs(s, i + 1)
                  ELSE IF s[i] = DollarCh /\ i < Len(s) /\ IsDigit(s[i + 1])
                    THEN LET j == DigitsEnd(s, i + 1) n == NumVal(s, i + 1, j, 0)
                         IN ArgOpen \o SubSeq(s, i + 1, j - 1) \o GoArgClose \o (IF n \in 1..2 THEN MRTags[n] ELSE <<63>>) \o PassArgs(s, j)
                  ELSE <<s[i]>> \o PassArgs(s, i + 1)
TwoPassAgrees == pos = 1 => PassArgs(PassSelf(text, 1), 1) = Subst(text, MLTag, MRTags, "go")
=============================================================================
