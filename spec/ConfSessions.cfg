SPECIFICATION Spec
INVARIANT C15_Independent
CHECK_DEADLOCK FALSE
