SPECIFICATION Spec
INVARIANT Dig_NoPanic
INVARIANT Dig_Closure
INVARIANT Dig_NoDup
CHECK_DEADLOCK FALSE
