------------------------------ MODULE ConfBuild ------------------------------
(***************************************************************************)
(* C16: whenever generation reported no error, the generated file is         *)
(* well-formed for its target: the Go toolchain builds it / node loads it.   *)
(* The judgement "compiles" is the toolchain's; this module states the       *)
(* acceptance rule over the recorded (generation, build) outcomes of every   *)
(* output variant of every case.                                             *)
(***************************************************************************)
EXTENDS Integers, Sequences, TLC, Json
Obs == JsonDeserialize("obs.json")   \* campaign.json: per case, per variant
VARIABLES cs, v
Init == cs \in DOMAIN Obs /\ v \in DOMAIN Obs[cs].variants
Next == UNCHANGED <<cs, v>>
Spec == Init /\ [][Next]_<<cs, v>>
Rec == Obs[cs].variants[v]
C16_Builds     == Rec.gen_exit = 0 => Rec.build_ok
\* generation of an accepted grammar must not fail in one variant only
C16_Generates  == Rec.gen_exit = 0
C16_RunsAtAll  == (Rec.gen_exit = 0 /\ Rec.build_ok) => (Rec.run_err = "" /\ Rec.nruns = Obs[cs].ninputs)
=============================================================================
