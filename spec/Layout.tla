------------------------------- MODULE Layout -------------------------------
(***************************************************************************)
(* C10: the layout of a grammar file as nondeterminism.                      *)
(* A file specification has n gaps (one before every lexeme); a layout is a  *)
(* vector in [1..n -> 0..K-1] choosing, per gap, one of K kinds of trivia    *)
(* (single space, several spaces, tab, newline, blank line, block comment,   *)
(* line comment, nothing, adjacent empty comment, multi-line comment).       *)
(* The full space K^n is far too large; this module defines the explored     *)
(* sub-space and writes it out for the harness to render:                    *)
(*   - every uniform layout (all gaps the same kind),                        *)
(*   - every single deviation from the plain layout (each gap x each kind),  *)
(*   - R pseudo-random vectors per specification (seeded).                   *)
(* The property itself -- Parse(Render(spec, layout)) = spec -- is checked   *)
(* on the recorded readings by ConfFile.tla.                                 *)
(***************************************************************************)
EXTENDS Integers, Sequences, FiniteSets, TLC, Json, SequencesExt

CONSTANTS Seed, R

Specs == JsonDeserialize("specs.json")

Uniform(n, K) == {[g \in 1..n |-> k] : k \in 0..(K - 1)}
Single(n, K)  == {[g \in 1..n |-> IF g = h THEN k ELSE 0] : h \in 1..n, k \in 1..(K - 1)}
Mix(r, g)     == (((r * 7919 + g * 104729 + Seed * 611953) % 1000003) * 31 + ((r * g) % 977)) % 65521
Random(n, K)  == {[g \in 1..n |-> Mix(r, g) % K] : r \in 1..R}
Layouts(n, K) == Uniform(n, K) \cup Single(n, K) \cup Random(n, K)

All == [i \in DOMAIN Specs |-> SetToSeq(Layouts(Specs[i].ngaps, Specs[i].nkinds))]
ASSUME JsonSerialize("layouts.json", All)
ASSUME PrintT(<<"LAYOUTS", [i \in DOMAIN Specs |-> Len(All[i])]>>)
=============================================================================
