SPECIFICATION Spec
INVARIANT C17_LateTrace
CHECK_DEADLOCK FALSE
