CONSTANT CreateAt = "Create"
SPECIFICATION Spec
INVARIANT C19_Untouched
INVARIANT C19_NoEarlyCreate
INVARIANT C19_Complete
PROPERTY Finishes
CHECK_DEADLOCK FALSE
