SPECIFICATION Spec
INVARIANT Lex_Conforms
CHECK_DEADLOCK FALSE
