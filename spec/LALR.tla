-------------------------------- MODULE LALR --------------------------------
(***************************************************************************)
(* (i)   Definition of LALR(1) look-aheads: union of the LR(1) look-aheads   *)
(*       over all canonical LR(1) states with the same core -- literally the *)
(*       wording of C03.                                                      *)
(* (ii)  The DeRemer-Pennello computation (DR, reads, includes, lookback),   *)
(*       shaped like LALR/LALR.go; TLC checks (i) = (ii) on every grammar it *)
(*       processes, which cross-validates the oracle per instance.           *)
(* (iii) Candidate actions per cell, yacc conflict resolution as C04 states  *)
(*       it, and the resulting abstract action table.                         *)
(***************************************************************************)
EXTENDS LR0

-----------------------------------------------------------------------------
(* (i) canonical LR(1); an item is <<rule, dot, lookahead>> *)
RECURSIVE Clo1(_, _, _, _)
Clo1(G, Nl, F, I) ==
  LET I2 == I \cup UNION {
        LET r == it[1] d == it[2] a == it[3]
            beta == SubSeq(Rhs(G, r), d + 2, Len(Rhs(G, r)))
            las == FirstSeqWith(G, Nl, F, beta) \cup (IF NullSeq(Nl, beta) THEN {a} ELSE {})
        IN { <<r2, 0, b>> : r2 \in RulesOf(G, Rhs(G, r)[d + 1]), b \in las }
        : it \in {it \in I : it[2] < Len(Rhs(G, it[1])) /\ Rhs(G, it[1])[it[2] + 1] \in NT(G)} }
  IN IF I2 = I THEN I ELSE Clo1(G, Nl, F, I2)
Goto1(G, Nl, F, I, X) ==
  LET k == {<<it[1], it[2] + 1, it[3]>> : it \in {it \in I :
               it[2] < Len(Rhs(G, it[1])) /\ Rhs(G, it[1])[it[2] + 1] = X}}
  IN IF k = {} THEN {} ELSE Clo1(G, Nl, F, k)
NextSyms1(G, I) == {Rhs(G, it[1])[it[2] + 1] : it \in {it \in I : it[2] < Len(Rhs(G, it[1]))}}
RECURSIVE Reach1(_, _, _, _, _)
Reach1(G, Nl, F, S, W) ==
  IF W = {} THEN S
  ELSE LET N == {Goto1(G, Nl, F, I, X) : <<I, X>> \in UNION {{<<I, X>> : X \in NextSyms1(G, I)} : I \in W}} \ S
       IN Reach1(G, Nl, F, S \cup N, N)
Start1(G, Nl, F)  == Clo1(G, Nl, F, {<<1, 0, End>>})
States1(G, Nl, F) == Reach1(G, Nl, F, {Start1(G, Nl, F)}, {Start1(G, Nl, F)})
Core(I) == {<<it[1], it[2]>> : it \in I}

\* reduce points: <<I, r>> with the completed item of r in LR(0) state I
RedPoints(G, S0) == {<<I, r>> \in S0 \X DOMAIN G.rules : <<r, Len(Rhs(G, r))>> \in I}

\* LA by definition, as a function on reduce points
LADef(G) ==
  LET Nl == Nullable(G)
      F  == First(G, Nl)
      S0 == States0(G)
      S1 == States1(G, Nl, F)
  IN [p \in RedPoints(G, S0) |->
        UNION { {it[3] : it \in {it \in I1 : it[1] = p[2] /\ it[2] = Len(Rhs(G, p[2]))}}
                : I1 \in {I1 \in S1 : Core(I1) = p[1]} }]

-----------------------------------------------------------------------------
(* (ii) DeRemer-Pennello.  A nonterminal transition is <<I, A>>. *)
NtTrans(G, S0) == {<<I, A>> \in S0 \X NT(G) : A \in NextSyms(G, I)}

DRof(G, t) ==
  LET J == Goto0(G, t[1], t[2])
  IN {X \in NextSyms(G, J) : X \notin NT(G)}
     \cup (IF t[1] = Start0(G) /\ t[2] = StartSym(G) THEN {End} ELSE {})

ReadsOf(G, Nl, t) ==
  LET J == Goto0(G, t[1], t[2]) IN {<<J, C>> : C \in {C \in NextSyms(G, J) : C \in Nl}}

\* (p, A) includes (p', B)  iff  B -> beta A gamma, gamma nullable, p = Goto*(p', beta)
IncludesOf(G, Nl, NTT, t) ==
  {u \in NTT : \E r \in RulesOf(G, u[2]) : \E k \in DOMAIN Rhs(G, r) :
       /\ Rhs(G, r)[k] = t[2]
       /\ NullSeq(Nl, SubSeq(Rhs(G, r), k + 1, Len(Rhs(G, r))))
       /\ GotoStar(G, u[1], SubSeq(Rhs(G, r), 1, k - 1)) = t[1]}

\* (q, A -> w) lookback (p, A)  iff  q = Goto*(p, w)
LookbackOf(G, NTT, p) ==
  {u \in NTT : u[2] = Lhs(G, p[2]) /\ GotoStar(G, u[1], Rhs(G, p[2])) = p[1]}

\* F[x] = F0[x] \cup UNION {F[y] : x R y}, least solution, by iteration
RECURSIVE RelFix(_, _, _)
RelFix(X, R, F) ==
  LET F2 == [x \in X |-> F[x] \cup UNION {F[y] : y \in R[x]}]
  IN IF F2 = F THEN F ELSE RelFix(X, R, F2)

LADP(G) ==
  LET Nl  == Nullable(G)
      S0  == States0(G)
      NTT == NtTrans(G, S0)
      DR  == [t \in NTT |-> DRof(G, t)]
      Rd  == [t \in NTT |-> ReadsOf(G, Nl, t)]
      Read == RelFix(NTT, Rd, DR)
      Inc == [t \in NTT |-> IncludesOf(G, Nl, NTT, t)]
      Follow == RelFix(NTT, Inc, Read)
  IN [p \in RedPoints(G, S0) |->
        IF p[2] = 1 THEN {End}
        ELSE UNION {Follow[u] : u \in LookbackOf(G, NTT, p)}]

-----------------------------------------------------------------------------
(* (iii) conflict resolution.  Precedence: G.tokprec is a sequence of        *)
(* [name, level, assoc]; a rule's precedence symbol is G.rules[r].prec       *)
(* ("" = none), already resolved by the abstract grammar (explicit %prec, or *)
(* the rule's last terminal when that terminal has a precedence).            *)
PrecOf(G, name) ==
  IF \E i \in DOMAIN G.tokprec : G.tokprec[i].name = name
  THEN LET i == CHOOSE i \in DOMAIN G.tokprec : G.tokprec[i].name = name
       IN [level |-> G.tokprec[i].level, assoc |-> G.tokprec[i].assoc]
  ELSE [level |-> 0, assoc |-> "none"]
RulePrec(G, r) == IF G.rules[r].prec = "" THEN [level |-> 0, assoc |-> "none"] ELSE PrecOf(G, G.rules[r].prec)

\* abstract actions
Shift      == [k |-> "s", n |-> 0]
Reduce(r)  == [k |-> "r", n |-> r]
ErrAct     == [k |-> "e", n |-> 0]
AccAct     == [k |-> "a", n |-> 0]

\* Resolution of a two-candidate cell, exactly as C04 words it.
\* tok: the terminal of the cell.  Result: the winning action and whether the
\* resolution had to fall back to the default rules (an "unresolved" conflict).
ResolveSR(G, tok, r) ==
  LET pt == PrecOf(G, tok) pr == RulePrec(G, r) IN
  IF pt.level = 0 \/ pr.level = 0 THEN [act |-> Shift, default |-> TRUE]
  ELSE IF pr.level > pt.level THEN [act |-> Reduce(r), default |-> FALSE]
  ELSE IF pr.level < pt.level THEN [act |-> Shift, default |-> FALSE]
  ELSE IF pt.assoc = "left"  THEN [act |-> Reduce(r), default |-> FALSE]
  ELSE IF pt.assoc = "right" THEN [act |-> Shift, default |-> FALSE]
  ELSE [act |-> ErrAct, default |-> FALSE]
ResolveRR(G, r1, r2) == [act |-> Reduce(IF r1 < r2 THEN r1 ELSE r2), default |-> TRUE]

\* candidates of cell (I, a) given a look-ahead function lah on reduce points
CandShift(G, I, a)    == a # End /\ a \in NextSyms(G, I)
CandReds(G, lah, I, a) == {r \in DOMAIN G.rules : <<r, Len(Rhs(G, r))>> \in I /\ a \in lah[<<I, r>>]}
NCand(G, lah, I, a)    == (IF CandShift(G, I, a) THEN 1 ELSE 0) + Cardinality(CandReds(G, lah, I, a))

\* both rules of a reduce/reduce conflict carry precedence: the property does
\* not say what happens (don't care)
RRBothPrec(G, rds) == \A r \in rds : RulePrec(G, r).level # 0

\* The action of a cell with at most two candidates ("dc" = don't care)
CellAct(G, lah, I, a) ==
  LET rds == CandReds(G, lah, I, a) sh == CandShift(G, I, a) n == NCand(G, lah, I, a) IN
  IF n = 0 THEN ErrAct
  ELSE IF n = 1 THEN (IF sh THEN Shift
                      ELSE LET r == CHOOSE r \in rds : TRUE IN IF r = 1 THEN AccAct ELSE Reduce(r))
  ELSE IF n = 2 /\ sh THEN ResolveSR(G, a, CHOOSE r \in rds : TRUE).act
  ELSE IF n = 2 /\ ~RRBothPrec(G, rds)
       THEN LET r == CHOOSE r \in rds : \A r2 \in rds : r <= r2 IN IF r = 1 THEN AccAct ELSE Reduce(r)
  ELSE [k |-> "dc", n |-> 0]

\* cells whose resolution needed the default rules
DefaultCells(G, lah, S0, T) ==
  {<<I, a>> \in S0 \X T : NCand(G, lah, I, a) = 2 /\
      IF CandShift(G, I, a) THEN ResolveSR(G, a, CHOOSE r \in CandReds(G, lah, I, a) : TRUE).default
      ELSE ~RRBothPrec(G, CandReds(G, lah, I, a))}
\* cells with 3+ candidates of which some lacks a precedence: warning is don't care
MurkyCells(G, lah, S0, T) ==
  {<<I, a>> \in S0 \X T : NCand(G, lah, I, a) >= 3 /\
      ((CandShift(G, I, a) /\ PrecOf(G, a).level = 0) \/ \E r \in CandReds(G, lah, I, a) : RulePrec(G, r).level = 0)}
ConflictCells(G, lah, S0, T) == {<<I, a>> \in S0 \X T : NCand(G, lah, I, a) >= 2}
=============================================================================
