CONSTANTS KMax = 4
Limit = 200
KLang = 4
SPECIFICATION Spec
INVARIANT OracleOK
INVARIANT Report
CHECK_DEADLOCK FALSE
