------------------------------ MODULE LexParse ------------------------------
(***************************************************************************)
(* The grammar-file front end of yaccgo as two processes joined by a         *)
(* rendezvous channel (Parser/Lex.go, Parser/Parser.go), at token-kind       *)
(* level (C13).                                                              *)
(*                                                                           *)
(* Lexer: sends the kinds of `toks` in order, then ends in one of three      *)
(* ways: "eof" (sends EOF, closes the channel), "error" (sends one Error     *)
(* token, closes), "errloop" (an unterminated comment: offers Error tokens   *)
(* for ever).                                                                *)
(* Parser: the real loop structure -- parseDeclare with parseTokendef,       *)
(* parsePrecList, parseTypeList, parseStartSymbol, then the rule loop with   *)
(* its two-token look-ahead (backup2) -- over next()/backup() with the       *)
(* three-slot token buffer.                                                  *)
(* Receive on the closed channel: FIXED = FALSE is the code as it was (the   *)
(* zero token, for ever: TLC finds the lasso  StartD, EOF, Zero, Zero, ...); *)
(* FIXED = TRUE is the repaired nextToken (EOF once the channel is closed).  *)
(* Property: the parser terminates for every token-kind sequence up to       *)
(* length N and every lexer ending.                                          *)
(***************************************************************************)
EXTENDS Naturals, Sequences, TLC
CONSTANTS N, FIXED   \* max number of tokens before the terminator; FIXED = TRUE models the repaired nextToken

Kinds == {"Id","Num","Chr","Str","LA","RA","TokD","PrecD","TypeD","StartD","Blob","Sec","Def","Or","End","Act","PrecR","Other"}
VARIABLES toks, mode, s, pc, t1
\* s = [li, a0, a1, peek, cur]
vars == <<toks, mode, s, pc, t1>>

Recv(st) == IF st.li <= Len(toks) THEN <<toks[st.li], st.li + 1>>
            ELSE IF mode = "errloop" THEN <<"Error", st.li>>
            ELSE IF st.li = Len(toks) + 1 THEN <<IF mode = "eof" THEN "EOF" ELSE "Error", st.li + 1>>
            ELSE <<IF FIXED THEN "EOF" ELSE "Zero", st.li>>
NextTok(st) == IF st.peek > 0
               THEN [st EXCEPT !.peek = st.peek - 1, !.cur = IF st.peek - 1 = 1 THEN st.a1 ELSE st.a0]
               ELSE LET r == Recv(st) IN [st EXCEPT !.li = r[2], !.a0 = r[1], !.cur = r[1]]
Backup(st) == [st EXCEPT !.peek = st.peek + 1]
Backup2(st, t) == [st EXCEPT !.a1 = t, !.peek = 2]
Expect(st, k) == IF st.cur = k THEN NextTok(st) ELSE st
\* optional <tag> prefix used by token/prec/type lists
TagPrefix(st) == IF st.cur = "LA" THEN Expect(NextTok(NextTok(st)), "RA") ELSE st

Seqs == UNION {[1..n -> Kinds] : n \in 0..N}
Init == /\ toks \in Seqs /\ mode \in {"eof", "error", "errloop"}
        /\ s = [li |-> 1, a0 |-> "Zero", a1 |-> "Zero", peek |-> 0, cur |-> "Zero"]
        /\ pc = "P0" /\ t1 = "Zero"

Goto(l, st) == pc' = l /\ s' = st /\ UNCHANGED <<toks, mode, t1>>

P0 == pc = "P0" /\ Goto("D", NextTok(s))
D == pc = "D" /\
     IF s.cur \in {"EOF", "Sec"} THEN Goto("Ddone", s)
     ELSE IF s.cur = "Error" THEN Goto("DONE", s)
     ELSE IF s.cur = "TokD" THEN Goto("TD", TagPrefix(NextTok(s)))
     ELSE IF s.cur = "PrecD" THEN Goto("PL", Backup(TagPrefix(NextTok(s))))
     ELSE IF s.cur = "TypeD" THEN Goto("TL", TagPrefix(NextTok(s)))
     ELSE IF s.cur = "StartD" THEN Goto("D", NextTok(NextTok(s)))
     ELSE Goto("D", NextTok(s))
TD == pc = "TD" /\
      IF s.cur = "Id" THEN LET a == NextTok(s) b == IF a.cur \in {"Num","Chr","Str"} THEN a ELSE Backup(a) IN Goto("TD", NextTok(b))
      ELSE IF s.cur = "Chr" THEN Goto("TD", NextTok(s))
      ELSE Goto("D", s)
PL == pc = "PL" /\ LET a == NextTok(s) IN IF a.cur \in {"Id","Chr"} THEN Goto("PL", a) ELSE Goto("D", a)
TL == pc = "TL" /\ IF s.cur = "Id" THEN Goto("TL", NextTok(s)) ELSE Goto("D", s)
Ddone == pc = "Ddone" /\ IF s.cur # "Sec" THEN Goto("DONE", s) ELSE Goto("R", NextTok(s))
R == pc = "R" /\ IF s.cur = "Id" THEN Goto("RB", Expect(NextTok(s), "Def")) ELSE Goto("DONE", Backup(s))
RB == pc = "RB" /\
      LET a == NextTok(s) b == Backup2(a, s.cur) IN   \* t1 = s.cur, t2 = a.cur
      IF s.cur = "End" \/ (s.cur = "Id" /\ a.cur = "Def")
      THEN LET c == NextTok(b) d == IF c.cur = "End" THEN NextTok(c) ELSE c IN Goto("R", d)
      ELSE LET c == NextTok(b) IN
           IF c.cur \in {"Chr","Id","Act","Or"} THEN Goto("RB", NextTok(c))
           ELSE IF c.cur = "PrecR" THEN LET d == NextTok(c) IN IF d.cur \in {"Id","Chr"} THEN Goto("RB", NextTok(d)) ELSE Goto("DONE", d)
           ELSE Goto("R", c)
Done == pc = "DONE" /\ UNCHANGED vars
Next == P0 \/ D \/ TD \/ PL \/ TL \/ Ddone \/ R \/ RB \/ Done
Spec == Init /\ [][Next]_vars /\ WF_vars(Next)
Terminates == <>(pc = "DONE")
====
