------------------------------ MODULE Pipeline ------------------------------
(***************************************************************************)
(* `yaccgo generate` as a pipeline of steps over an output file (C19), and   *)
(* the places where iteration order can leak into the output (C14).          *)
(*                                                                           *)
(* Steps (Builder/GoTemplBuilder.go, Builder/TsGenCode.go, yaccgo/command.go)*)
(*   Read -> LexParse -> Declare -> Rules -> Grammar -> Automaton ->          *)
(*   LookAheads -> Table -> Pack -> Consts -> Tables -> Reduce -> Translate   *)
(*   -> Create -> Write -> Close                                              *)
(* A run carries one planted failure cause (or "none"); each cause strikes   *)
(* at its step.  CreateAt is the step at which the output file is created    *)
(* (truncating an existing one): in the code it is "Create", after every     *)
(* fallible step.                                                            *)
(* C19:  file # "old" => no step that can still fail for an input reason     *)
(*       lies ahead;   failed => file = "old";   done => file = "complete".  *)
(***************************************************************************)
EXTENDS PipelineDefs

CONSTANT CreateAt    \* name of the step that creates the output file

VARIABLES lang, cause, step, file, status
vars == <<lang, cause, step, file, status>>

Init == /\ lang \in Langs /\ cause \in Causes
        /\ step = 1 /\ file = "old" /\ status = "running"

Advance ==
  /\ status = "running"
  /\ LET s == Steps[step] IN
     IF cause # "none" /\ FailsAt[cause] = s
     THEN /\ status' = "failed" /\ UNCHANGED <<step, file>>
     ELSE /\ file' = IF s = CreateAt THEN "truncated"
                     ELSE IF s = "Write" /\ file = "truncated" THEN "partial"
                     ELSE IF s = "Close" /\ file = "partial" THEN "complete"
                     ELSE file
          /\ IF step = Len(Steps) THEN status' = "done" /\ step' = step
             ELSE status' = status /\ step' = step + 1
  /\ UNCHANGED <<lang, cause>>

Next == Advance
Spec == Init /\ [][Next]_vars /\ WF_vars(Advance)

LastFallible == StepNo("Reduce")
C19_Untouched == status = "failed" => file = "old"
C19_NoEarlyCreate == file # "old" => step > LastFallible
C19_Complete == status = "done" => file = "complete"
Finishes == <>(status \in {"failed", "done"})

\* the scenario space replayed against the real CLI
Scenarios == {<<l, c>> : l \in Langs, c \in Causes}
ASSUME PrintT(<<"SCENARIOS", Scenarios>>)
=============================================================================
