SPECIFICATION Spec
INVARIANT C14_SameBytes
INVARIANT C14_AllRan
CHECK_DEADLOCK FALSE
