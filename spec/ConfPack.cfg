SPECIFICATION Spec
INVARIANT C05_NoPanic
INVARIANT C05_Lossless
CHECK_DEADLOCK FALSE
