SPECIFICATION Spec
INVARIANT C12_Iff
INVARIANT C12_Diag
CHECK_DEADLOCK FALSE
