---------------------------- MODULE PipelineDefs ----------------------------
(* Steps of `yaccgo generate`, input-caused failure causes and where they strike (shared by Pipeline.tla and ConfPipeline.tla). *)
EXTENDS Integers, Sequences, FiniteSets, TLC

Steps == <<"Read", "LexParse", "Declare", "Rules", "Grammar", "Automaton", "LookAheads", "Table", "Pack",
           "Consts", "Tables", "Reduce", "Translate", "Create", "Write", "Close">>
StepNo(s) == CHOOSE i \in DOMAIN Steps : Steps[i] = s

\* input-caused failures and the step at which each strikes
FailsAt == [ lexical      |-> "LexParse",   \* stray character, unbalanced brace, unterminated comment
             syntax       |-> "LexParse",   \* e.g. missing %% or malformed declaration
             undefined    |-> "Rules",      \* rule uses an undeclared symbol
             ruleless     |-> "Grammar",    \* %type nonterminal without a rule
             unproductive |-> "Grammar",    \* nonterminal that derives no terminal string
             dollarrange  |-> "Reduce",     \* $n with n > length of the rule
             dollarzero   |-> "Reduce" ]    \* $0
Causes == DOMAIN FailsAt \cup {"none"}
Langs  == {"go", "typescript"}

=============================================================================
