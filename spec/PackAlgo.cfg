CONSTANTS MaxRows = 3
MaxCols = 3
Vals = {0, 1, 2}
SPECIFICATION Spec
INVARIANT PackLossless
INVARIANT OwnerSound
PROPERTY Terminates
CHECK_DEADLOCK FALSE
