------------------------------ MODULE PrecClimb ------------------------------
(***************************************************************************)
(* "An operator grammar written with %left/%right/%nonassoc and %prec       *)
(* groups every expression the way the declarations say" (C04, last          *)
(* sentence) - stated WITHOUT any LR machinery.                              *)
(*                                                                           *)
(* For a grammar of operator shape                                           *)
(*     E : E op E | pre E | E post | open E close | atom                     *)
(* in which every operator rule carries a precedence, the declarations       *)
(* determine one expression tree per input (or none): the one found by       *)
(* precedence climbing.  Climb(G, w) computes it and returns the rules of    *)
(* the tree in post-order - which is the order in which a bottom-up parser   *)
(* must reduce them - or "error".                                            *)
(*                                                                           *)
(* Binding: an operator seen as the next token binds with the precedence of  *)
(* its TOKEN; an operator whose right operand is being read holds it with    *)
(* the precedence of its RULE (explicit %prec or the rule's own operator).   *)
(*   next token higher than the holder       -> it joins the right operand   *)
(*   next token lower                        -> the holder's expression ends *)
(*   same level: %left ends, %right joins, %nonassoc is an error             *)
(* Parameter and LET names are prefixed (pc...) so that no root module's     *)
(* variable can shadow them (see DESIGN.md 0.3 on TLC's constant caching).   *)
(***************************************************************************)
EXTENDS LALR

PCE(pcG) == StartSym(pcG)
PCRules(pcG) == DOMAIN pcG.rules \ {1}
PCIsT(pcG, pcs) == pcs \in DeclTerms(pcG) /\ pcs \notin NT(pcG)

\* kinds of rules
PCBin(pcG, pcr)  == LET h == Rhs(pcG, pcr) IN Len(h) = 3 /\ h[1] = PCE(pcG) /\ h[3] = PCE(pcG) /\ PCIsT(pcG, h[2])
PCPre(pcG, pcr)  == LET h == Rhs(pcG, pcr) IN Len(h) = 2 /\ h[2] = PCE(pcG) /\ PCIsT(pcG, h[1])
PCPost(pcG, pcr) == LET h == Rhs(pcG, pcr) IN Len(h) = 2 /\ h[1] = PCE(pcG) /\ PCIsT(pcG, h[2])
PCBrk(pcG, pcr)  == LET h == Rhs(pcG, pcr) IN Len(h) = 3 /\ h[2] = PCE(pcG) /\ PCIsT(pcG, h[1]) /\ PCIsT(pcG, h[3])
PCAtom(pcG, pcr) == LET h == Rhs(pcG, pcr) IN Len(h) = 1 /\ PCIsT(pcG, h[1])

PCBinTok(pcG)  == {Rhs(pcG, r)[2] : r \in {r \in PCRules(pcG) : PCBin(pcG, r)}}
PCPostTok(pcG) == {Rhs(pcG, r)[2] : r \in {r \in PCRules(pcG) : PCPost(pcG, r)}}
PCPreTok(pcG)  == {Rhs(pcG, r)[1] : r \in {r \in PCRules(pcG) : PCPre(pcG, r)}}
PCOpenTok(pcG) == {Rhs(pcG, r)[1] : r \in {r \in PCRules(pcG) : PCBrk(pcG, r)}}
PCCloseTok(pcG) == {Rhs(pcG, r)[3] : r \in {r \in PCRules(pcG) : PCBrk(pcG, r)}}
PCAtomTok(pcG) == {Rhs(pcG, r)[1] : r \in {r \in PCRules(pcG) : PCAtom(pcG, r)}}

\* The grammar has operator shape and the declarations decide everything.
OpShape(pcG) ==
  /\ NT(pcG) = {pcG.rules[1].lhs, PCE(pcG)}
  /\ \A r \in PCRules(pcG) :
       /\ Lhs(pcG, r) = PCE(pcG)
       /\ PCBin(pcG, r) \/ PCPre(pcG, r) \/ PCPost(pcG, r) \/ PCBrk(pcG, r) \/ PCAtom(pcG, r)
       /\ ~pcG.rules[r].precdc
       /\ (PCBin(pcG, r) \/ PCPre(pcG, r) \/ PCPost(pcG, r)) => RulePrec(pcG, r).level > 0
  /\ \A r1, r2 \in PCRules(pcG) : Rhs(pcG, r1) = Rhs(pcG, r2) => r1 = r2
  \* an operator token read in infix position is binary or postfix, not both, and has a precedence of its own
  /\ PCBinTok(pcG) \cap PCPostTok(pcG) = {}
  /\ \A t \in PCBinTok(pcG) \cup PCPostTok(pcG) : PrecOf(pcG, t).level > 0
  \* one rule per operator token and position
  /\ \A r1, r2 \in PCRules(pcG) : (PCBin(pcG, r1) /\ PCBin(pcG, r2) /\ Rhs(pcG, r1)[2] = Rhs(pcG, r2)[2]) => r1 = r2
  \* what may start an operand is told apart by its first token
  /\ PCPreTok(pcG) \cap PCOpenTok(pcG) = {} /\ PCPreTok(pcG) \cap PCAtomTok(pcG) = {} /\ PCOpenTok(pcG) \cap PCAtomTok(pcG) = {}
  /\ \A r1, r2 \in PCRules(pcG) : (PCBrk(pcG, r1) /\ PCBrk(pcG, r2) /\ Rhs(pcG, r1)[1] = Rhs(pcG, r2)[1]) => r1 = r2
  \* brackets and atoms are not operators
  /\ (PCOpenTok(pcG) \cup PCCloseTok(pcG) \cup PCAtomTok(pcG)) \cap (PCBinTok(pcG) \cup PCPostTok(pcG)) = {}
  /\ PCCloseTok(pcG) \cap (PCPreTok(pcG) \cup PCOpenTok(pcG) \cup PCAtomTok(pcG)) = {}
  /\ PCAtomTok(pcG) # {}

PCRuleOf(pcG, pcKind, pcTok) ==
  CHOOSE r \in PCRules(pcG) :
     \/ pcKind = "bin"  /\ PCBin(pcG, r)  /\ Rhs(pcG, r)[2] = pcTok
     \/ pcKind = "post" /\ PCPost(pcG, r) /\ Rhs(pcG, r)[2] = pcTok
     \/ pcKind = "pre"  /\ PCPre(pcG, r)  /\ Rhs(pcG, r)[1] = pcTok
     \/ pcKind = "brk"  /\ PCBrk(pcG, r)  /\ Rhs(pcG, r)[1] = pcTok
     \/ pcKind = "atom" /\ PCAtom(pcG, r) /\ Rhs(pcG, r)[1] = pcTok

\* how strongly a rule holds its right operand: 2*level for %left and %nonassoc, one less for %right
PCHold(pcG, pcr) == LET p == RulePrec(pcG, pcr) IN IF p.assoc = "right" THEN 2 * p.level - 1 ELSE 2 * p.level
\* the level at which a further operator is an error after this rule (0 = none)
PCNonAssoc(pcG, pcr) == LET p == RulePrec(pcG, pcr) IN IF p.assoc = "nonassoc" THEN p.level ELSE 0

PCFail == [ok |-> FALSE, pos |-> 0, reds |-> <<>>, na |-> 0]

RECURSIVE PCExpr(_, _, _, _), PCLoop(_, _, _, _, _, _), PCPrimary(_, _, _)
\* an operand: atom | open E close | pre E.   na: the %nonassoc level of a prefix rule that is its root
PCPrimary(pcG, pcW, pcPos) ==
  IF pcPos > Len(pcW) THEN PCFail
  ELSE LET t == pcW[pcPos] IN
    IF t \in PCAtomTok(pcG) THEN [ok |-> TRUE, pos |-> pcPos + 1, reds |-> <<PCRuleOf(pcG, "atom", t)>>, na |-> 0]
    ELSE IF t \in PCOpenTok(pcG) THEN
      LET r == PCRuleOf(pcG, "brk", t)
          e == PCExpr(pcG, pcW, pcPos + 1, 0) IN
      IF e.ok /\ e.pos <= Len(pcW) /\ pcW[e.pos] = Rhs(pcG, r)[3]
      THEN [ok |-> TRUE, pos |-> e.pos + 1, reds |-> Append(e.reds, r), na |-> 0] ELSE PCFail
    ELSE IF t \in PCPreTok(pcG) THEN
      LET r == PCRuleOf(pcG, "pre", t)
          e == PCExpr(pcG, pcW, pcPos + 1, PCHold(pcG, r)) IN
      IF e.ok THEN [ok |-> TRUE, pos |-> e.pos, reds |-> Append(e.reds, r), na |-> PCNonAssoc(pcG, r)] ELSE PCFail
    ELSE PCFail

\* an expression whose operators all bind more strongly than pcMin
PCExpr(pcG, pcW, pcPos, pcMin) ==
  LET p == PCPrimary(pcG, pcW, pcPos) IN
  IF p.ok THEN PCLoop(pcG, pcW, p.pos, pcMin, p.reds, p.na) ELSE PCFail

\* pcAcc: post-order of the left operand built so far; pcNA: %nonassoc level of the rule at its root (0: none)
PCLoop(pcG, pcW, pcPos, pcMin, pcAcc, pcNA) ==
  IF pcPos > Len(pcW) \/ pcW[pcPos] \notin (PCBinTok(pcG) \cup PCPostTok(pcG))
  THEN [ok |-> TRUE, pos |-> pcPos, reds |-> pcAcc, na |-> 0]
  ELSE LET t == pcW[pcPos]
           lv == PrecOf(pcG, t).level IN
    \* the rule at the root of the left operand is asked first: same level and %nonassoc is an error,
    \* whatever holds the operand further out
    IF lv = pcNA THEN PCFail
    ELSE IF 2 * lv <= pcMin THEN [ok |-> TRUE, pos |-> pcPos, reds |-> pcAcc, na |-> 0]
    ELSE IF t \in PCPostTok(pcG) THEN
      PCLoop(pcG, pcW, pcPos + 1, pcMin, Append(pcAcc, PCRuleOf(pcG, "post", t)), 0)
    ELSE
      LET r == PCRuleOf(pcG, "bin", t)
          e == PCExpr(pcG, pcW, pcPos + 1, PCHold(pcG, r)) IN
      IF e.ok THEN PCLoop(pcG, pcW, e.pos, pcMin, Append(pcAcc \o e.reds, r), PCNonAssoc(pcG, r)) ELSE PCFail

Climb(pcG, pcW) ==
  LET e == PCExpr(pcG, pcW, 1, 0) IN
  IF e.ok /\ e.pos = Len(pcW) + 1 THEN [status |-> "accept", reds |-> e.reds]
  ELSE [status |-> "error", reds |-> <<>>]
=============================================================================
