SPECIFICATION Spec
INVARIANT C05_CodeLookup
CHECK_DEADLOCK FALSE
