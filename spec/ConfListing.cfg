SPECIFICATION Spec
INVARIANT L_States
INVARIANT L_Items
INVARIANT L_Gotos
INVARIANT L_LA
INVARIANT D_Nodes
INVARIANT D_Edges
INVARIANT D_Reds
INVARIANT D_Accept
CHECK_DEADLOCK FALSE
