------------------------------ MODULE ConfPack ------------------------------
(***************************************************************************)
(* C05 (a): the real packing routine (Utils.PackTable), run on enumerated    *)
(* and random matrices; each recorded (matrix, act, off, chk) must satisfy   *)
(* Lossless (PackTable.tla).  The obligation is the relation, not a          *)
(* particular placement.                                                     *)
(***************************************************************************)
EXTENDS PackTable, Json, TLC
Obs == JsonDeserialize("obs.json")
VARIABLE m
Init == m \in DOMAIN Obs
Next == UNCHANGED m
Spec == Init /\ [][Next]_m
C05_NoPanic  == Obs[m].panic = ""
C05_Lossless == Obs[m].panic = "" => Lossless(Obs[m].t, Obs[m].act, Obs[m].off, Obs[m].chk)
=============================================================================
