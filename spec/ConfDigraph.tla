----------------------------- MODULE ConfDigraph -----------------------------
(***************************************************************************)
(* The real lalr.Digraph, run on enumerated relations (all relations on up   *)
(* to 3 or 4 nodes) and random larger graphs; TLC checks the recorded result *)
(* against the closure that Digraph is meant to compute (the same equation   *)
(* the PlusCal model Digraph.tla is verified against).                       *)
(***************************************************************************)
EXTENDS Integers, Sequences, FiniteSets, TLC, Json
Obs == JsonDeserialize("obs.json")
VARIABLE m
Init == m \in DOMAIN Obs
Next == UNCHANGED m
Spec == Init /\ [][Next]_m
SeqRange(s) == {s[i] : i \in DOMAIN s}
Succ(o, a) == {o.rel[k][2] : k \in {k \in DOMAIN o.rel : o.rel[k][1] = a}}
RECURSIVE ReachFrom(_, _)
ReachFrom(o, Sx) == LET S2 == Sx \cup UNION {Succ(o, a) : a \in Sx} IN IF S2 = Sx THEN Sx ELSE ReachFrom(o, S2)
Dig_NoPanic == Obs[m].panic = ""
Dig_Closure == Obs[m].panic = "" =>
  \A a \in 1..Obs[m].n : SeqRange(Obs[m].f[a]) = UNION {SeqRange(Obs[m].fp[b]) : b \in ReachFrom(Obs[m], {a})}
\* a set handed back with a duplicate element would later create a spurious self-conflict
Dig_NoDup == Obs[m].panic = "" => \A a \in 1..Obs[m].n : Cardinality(SeqRange(Obs[m].f[a])) = Len(Obs[m].f[a])
=============================================================================
