SPECIFICATION Spec
INVARIANT Parse_Conforms
CHECK_DEADLOCK FALSE
