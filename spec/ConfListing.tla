----------------------------- MODULE ConfListing -----------------------------
(***************************************************************************)
(* C18 conformance: the debug listing (parsed) and the DOT graph (parsed)    *)
(* of one real run against the tables of that same run (Listing.tla).        *)
(* Diagram: exactly the table's automaton.  Listing: it prints the LR(0)     *)
(* transitions and the look-ahead sets before conflict resolution, so it     *)
(* must contain everything the table implements, and whatever it shows       *)
(* beyond that must be the loser of a conflict in that very cell.            *)
(***************************************************************************)
EXTENDS Listing, Json
Obs == JsonDeserialize("obs.json")
VARIABLE m
Init == m \in DOMAIN Obs
Next == UNCHANGED m
Spec == Init /\ [][Next]_m
O == Obs[m]
G == O.g
N == Len(O.table)
StateItems(n) == SeqRange(O.states[n])

\* reduce candidates the run computed: <<state, rule, look-ahead>>
RecLA == UNION {{<<O.la[k].q, O.la[k].r, x>> : x \in SeqRange(O.la[k].la)} : k \in DOMAIN O.la}
\* a cell where more than one action competed
Contested(n, a) == \/ ((\E k \in DOMAIN O.gotos[n] : O.gotos[n][k].sym = a) /\ (\E t \in RecLA : t[1] = n /\ t[3] = a))
                   \/ Cardinality({t \in RecLA : t[1] = n /\ t[3] = a}) >= 2

\* ----- listing
L_States == /\ {O.lstates[k].n : k \in DOMAIN O.lstates} = 1..N
            /\ Len(O.lstates) = N
L_Items  == \A k \in DOMAIN O.lstates :
              LET ls == O.lstates[k] IN ls.n \in 1..N =>
              /\ SeqRange(ls.items) = {ItemTokens(G, it) : it \in StateItems(ls.n)}
              /\ Len(ls.items) = Cardinality(StateItems(ls.n))
L_Gotos  == \A k \in DOMAIN O.lstates :
              LET ls == O.lstates[k]
                  shown == {<<ls.gotos[j].sym, ls.gotos[j].to>> : j \in DOMAIN ls.gotos}
              IN ls.n \in 1..N =>
                 /\ TabTrans(O, ls.n) \subseteq shown
                 /\ \A e \in shown \ TabTrans(O, ls.n) : Contested(ls.n, e[1])
                 /\ \A e \in shown : e[2] \in 1..N /\ StateItems(e[2]) = Goto0(G, StateItems(ls.n), e[1])
ListedLA == UNION {{<<O.lla[k].q, O.lla[k].lhs, O.lla[k].rhs, x>> : x \in SeqRange(O.lla[k].la)} : k \in DOMAIN O.lla}
L_LA     == /\ ListedLA = {<<t[1], Lhs(G, t[2]), Rhs(G, t[2]), t[3]>> : t \in RecLA}
            /\ \A n \in 1..N : \A rd \in TabReds(O, n) : <<n, Lhs(G, rd[2]), Rhs(G, rd[2]), rd[1]>> \in ListedLA
            /\ \A n \in AccStates(O) : <<n, Lhs(G, 1), Rhs(G, 1), End>> \in ListedLA
            /\ \A t \in RecLA : (<<O.syms[CHOOSE c \in DOMAIN O.syms : O.syms[c] = t[3]], t[2]>> \notin TabReds(O, t[1]) /\ ~(t[2] = 1 /\ t[1] \in AccStates(O)))
                                  => Contested(t[1], t[3])

\* ----- diagram
D_Nodes  == /\ {O.dnodes[k].n : k \in DOMAIN O.dnodes} = 1..N
            /\ Len(O.dnodes) = N
            /\ \A k \in DOMAIN O.dnodes : LET dn == O.dnodes[k] IN dn.n \in 1..N =>
                 /\ SeqRange(dn.items) = {DiagramItemTokens(G, it) : it \in StateItems(dn.n)}
                 /\ Len(dn.items) = Cardinality(StateItems(dn.n))
D_Edges  == {<<O.dedges[k].from, O.dedges[k].label, O.dedges[k].to>> : k \in DOMAIN O.dedges}
              = UNION {{<<n, e[1], e[2]>> : e \in TabTrans(O, n)} : n \in 1..N}
D_Reds   == \A k \in DOMAIN O.dnodes : LET dn == O.dnodes[k] IN dn.n \in 1..N =>
              /\ {<<dn.reds[j].sym, dn.reds[j].rule>> : j \in DOMAIN dn.reds} = TabReds(O, dn.n)
              /\ Len(dn.reds) = Cardinality(TabReds(O, dn.n))
D_Accept == {O.dnodes[k].n : k \in {k \in DOMAIN O.dnodes : O.dnodes[k].filled}} = AccStates(O)
Parsed   == Len(O.parsenotes) = 0
=============================================================================
