------------------------------ MODULE ConfFile ------------------------------
(***************************************************************************)
(* C10 conformance: every recorded reading of a rendering (specification,    *)
(* layout) by the real front end must be accepted and must project to the    *)
(* specification's abstract content: rules in order (left-hand side, symbols, *)
(* %prec, action text), start symbol, explicit token numbers, value tags,    *)
(* precedence level and associativity per token, prologue / union / epilogue *)
(* text.                                                                     *)
(***************************************************************************)
EXTENDS Integers, Sequences, TLC, Json
Specs == JsonDeserialize("specs.json")
Obs == JsonDeserialize("obs.json")
VARIABLE m
Init == m \in DOMAIN Obs
Next == UNCHANGED m
Spec == Init /\ [][Next]_m
O == Obs[m]
W == Specs[O.spec].want
C10_Accepted == O.outcome = "ok"
C10_Rules    == O.outcome = "ok" => (O.got.rules = W.rules /\ O.ruleprec_ok)
C10_Start    == O.outcome = "ok" => O.got.start = W.start
C10_Tokens   == O.outcome = "ok" => (O.got.tokens = W.tokens /\ O.got.nttags = W.nttags)
\* the generated Go and TypeScript files carry the user's text unchanged (checked for one rendering per specification)
C10_Output   == \A k \in DOMAIN O.gen : LET x == O.gen[k] IN x.ok /\ x.prologue /\ x.union /\ x.epilogue /\ x.actions
C10_Code     == O.outcome = "ok" => (O.got.prologue = W.prologue /\ O.got.union = W.union /\ O.got.epilogue = W.epilogue)
=============================================================================
