---------------------------- MODULE ConfSessions ----------------------------
(***************************************************************************)
(* C15 conformance: recorded results of real generated parsers under the     *)
(* scenario spaces of Sessions.tla (histories of init/parse in one process)  *)
(* and Contexts.tla (two contexts interleaved at token-fetch granularity,    *)
(* eight contexts in parallel).  Every observation carries what the parses   *)
(* produced (`got`: per parse the full event log -- tokens fetched,          *)
(* reductions, outcome, value) and what the same parses produce alone in a   *)
(* fresh process / fresh context (`want`).                                   *)
(***************************************************************************)
EXTENDS Integers, Sequences, TLC, Json
Obs == JsonDeserialize("obs.json")
VARIABLE m
Init == m \in DOMAIN Obs
Next == UNCHANGED m
Spec == Init /\ [][Next]_m
C15_Independent == Obs[m].got = Obs[m].want
=============================================================================
