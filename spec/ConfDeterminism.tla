--------------------------- MODULE ConfDeterminism ---------------------------
(* Recorded repeated real runs: every group (grammar file, option set) must have one single output. *)
EXTENDS Integers, Sequences, FiniteSets, TLC, Json
Obs == JsonDeserialize("obs.json")
VARIABLE m
Init == m \in DOMAIN Obs
Next == UNCHANGED m
Spec == Init /\ [][Next]_m
SeqRange(s) == {s[i] : i \in DOMAIN s}
C14_SameBytes == Cardinality(SeqRange(Obs[m].hashes)) = 1
C14_AllRan    == \A i \in DOMAIN Obs[m].exits : Obs[m].exits[i] = 0
=============================================================================
