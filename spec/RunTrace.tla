------------------------------ MODULE RunTrace ------------------------------
(***************************************************************************)
(* Trace validation of runs of generated parsers.                            *)
(*                                                                           *)
(* The harness drives every output variant of a generated parser over a set  *)
(* of inputs and records, per run, the events the parser itself produced:    *)
(*   reset  start of a run: case, variant, input                             *)
(*   T      the parser called GetToken and received token tok                *)
(*   R      the semantic action of rule `rule` ran (i.e. a reduction)        *)
(*   end    outcome class, printed value, number of GetToken calls           *)
(* Many runs are concatenated in one ndjson file.  Each event is one step of *)
(* this specification: a pure symbol/value stack is replayed (no parse table *)
(* is consulted), so that at the end of every run the properties can be read *)
(* off as state invariants:                                                  *)
(*   C01  accept => the reductions are a rightmost derivation (in reverse)   *)
(*        of the whole input                                                 *)
(*   C02  conflict-free grammar and Earley accepts => accept                 *)
(*   C06  outcome class is accept or documented syntax error; on conflict-   *)
(*        free grammars the error comes exactly at Earley's first bad token  *)
(*   C07  accepted value = attribute evaluation over the derivation          *)
(*   C08  all variants of one (grammar, input) agree                         *)
(*   C05  packed and -u variants agree                                       *)
(***************************************************************************)
EXTENDS LRDriver, Earley, PrecClimb, Json

Cases == JsonDeserialize("tcases.json")
Trace == ndJsonDeserialize("trace.ndjson")

\* the specification's own table per case (used for C04 at behaviour level)
STab == TLCEval([i \in DOMAIN Cases |-> TLCEval(SpecOf(Cases[i].g))])
\* is the current case's grammar conflict-free LALR(1) (by the specification's definition)?
\* (STab is referenced directly with the state variable, see DESIGN.md 0.3)

\* does the case's grammar have operator shape (PrecClimb.tla)?
SShape == TLCEval([i \in DOMAIN Cases |-> OpShape(Cases[i].g)])

VARIABLES l, phase, cs, variant, input, stk, vstk, la, laval, fetched, dok, reds, verdict, val, nfetch, ref, prev, eref
vars == <<l, phase, cs, variant, input, stk, vstk, la, laval, fetched, dok, reds, verdict, val, nfetch, ref, prev, eref>>
run  == <<cs, variant, input, stk, vstk, la, laval, fetched, dok, reds>>
outc == <<verdict, val, nfetch>>

NoSum == [verdict |-> "none", reds |-> <<>>, val |-> "", nfetch |-> 0, variant |-> ""]
Gc == Cases[cs].g

TagOf(i, s) == LET t == Cases[i].tags IN
               IF \E k \in DOMAIN t : t[k].name = s THEN t[CHOOSE k \in DOMAIN t : t[k].name = s].tag ELSE ""
IsInt(tag) == tag \in {"ia", "ib"}
ZeroOf(tag) == IF tag = "st" THEN "" ELSE 0
TokVal(i, p, ord, name) ==
  LET tag == TagOf(i, name) IN
  IF ~Cases[i].valued THEN 0
  ELSE IF tag = "ia" THEN 100 + 7 * p + ord
  ELSE IF tag = "ib" THEN 500 + 11 * p + ord
  ELSE IF tag = "st" THEN "t" \o ToString(p) \o "k" \o ToString(ord)
  ELSE 0
AsInt(v, tag) == IF IsInt(tag) THEN v ELSE Len(v)
AsStr(v, tag) == IF tag = "st" THEN v ELSE ToString(v)
RECURSIVE SumArgs(_, _, _, _, _)
SumArgs(i, a, rhs, kids, k) ==
  IF k > Len(a.args) THEN 0
  ELSE a.coefs[k + 1] * AsInt(kids[a.args[k]], TagOf(i, rhs[a.args[k]])) + SumArgs(i, a, rhs, kids, k + 1)
RECURSIVE JoinArgs(_, _, _, _, _)
JoinArgs(i, a, rhs, kids, k) ==
  IF k > Len(a.args) THEN ""
  ELSE (IF k > 1 THEN "," ELSE "") \o AsStr(kids[a.args[k]], TagOf(i, rhs[a.args[k]])) \o JoinArgs(i, a, rhs, kids, k + 1)
\* value of the left-hand side of rule r given the values of its right-hand side
EvalAct(i, r, kids) ==
  LET a == Cases[i].acts[r] rhs == Rhs(Cases[i].g, r) ltag == TagOf(i, Lhs(Cases[i].g, r)) IN
  IF ~Cases[i].valued THEN 0
  ELSE IF a.kind = "int" THEN (a.coefs[1] + SumArgs(i, a, rhs, kids, 1)) % 9973
  ELSE IF a.kind = "str" THEN "r" \o ToString(r - 1) \o "(" \o JoinArgs(i, a, rhs, kids, 1) \o ")"
  ELSE ZeroOf(ltag)

Ev(e) == l <= Len(Trace) /\ Trace[l].e = e /\ l' = l + 1

\* One behaviour per group of runs (all variants of one grammar and input):
\* a behaviour starts at a reset line marked first and ends with the group's
\* last end line, so a counterexample is one short group, not the whole file.
GroupStarts == {i \in DOMAIN Trace : Trace[i].e = "reset" /\ Trace[i].first}
Init == /\ l \in GroupStarts /\ phase = "idle" /\ cs = 0 /\ variant = "" /\ input = <<>>
        /\ stk = <<>> /\ vstk = <<>> /\ la = "" /\ laval = 0 /\ fetched = <<>> /\ dok = TRUE /\ reds = <<>>
        /\ verdict = "none" /\ val = "" /\ nfetch = 0 /\ ref = NoSum /\ prev = NoSum
        /\ eref = [status |-> "none", pos |-> 0]

Reset == /\ Ev("reset")
         /\ (phase = "idle" /\ Trace[l].first) \/ (phase = "ended" /\ ~Trace[l].first)
         /\ phase' = "run" /\ cs' = Trace[l].case /\ variant' = Trace[l].variant /\ input' = Trace[l].input
         /\ stk' = <<>> /\ vstk' = <<>> /\ la' = "" /\ laval' = 0 /\ fetched' = <<>> /\ dok' = TRUE /\ reds' = <<>>
         /\ verdict' = "none" /\ val' = "" /\ nfetch' = 0
         /\ ref' = IF Trace[l].first THEN NoSum ELSE ref
         \* reference outcome of this input, once per group: the Earley recogniser; for large conflict-free
         \* grammars the specification's own LALR(1) table run (linear time) -- ConfDriver.tla (SpecTabOK) checks
         \* on those same grammars that the two agree.  (STab is referenced directly, not through an operator
         \* with parameters: see DESIGN.md 0.3.)
         /\ eref' = IF ~Trace[l].first THEN eref
                    ELSE IF Len(Cases[Trace[l].case].g.rules) > 45 /\ STab[Trace[l].case].conflictfree
                    THEN LET r == Run(Cases[Trace[l].case].g, STab[Trace[l].case], Trace[l].input) IN [status |-> r.status, pos |-> r.pos]
                    ELSE LET e == EarleyRun(Cases[Trace[l].case].g, Trace[l].input) IN [status |-> e.status, pos |-> e.pos]
         /\ prev' = IF Trace[l].first THEN NoSum
                    ELSE [verdict |-> verdict, reds |-> reds, val |-> val, nfetch |-> nfetch, variant |-> variant]

\* GetToken returned: the previous look-ahead (if any) has been shifted
Fetch == /\ Ev("T") /\ phase = "run"
         /\ stk'  = IF la = "" THEN stk ELSE Append(stk, la)
         /\ vstk' = IF la = "" THEN vstk ELSE Append(vstk, laval)
         /\ la' = Trace[l].tok
         /\ laval' = TokVal(cs, Len(fetched), Trace[l].ord, Trace[l].tok)
         /\ fetched' = Append(fetched, Trace[l].tok)
         /\ UNCHANGED <<phase, cs, variant, input, dok, reds, outc, ref, prev, eref>>

DoReduce == /\ Ev("R") /\ phase = "run"
          /\ LET r == Trace[l].rule IN
             /\ reds' = Append(reds, r)
             /\ IF r \in DOMAIN Gc.rules /\ r # 1 /\ dok
                   /\ Len(stk) >= Len(Rhs(Gc, r))
                   /\ SubSeq(stk, Len(stk) - Len(Rhs(Gc, r)) + 1, Len(stk)) = Rhs(Gc, r)
                THEN LET n == Len(Rhs(Gc, r)) IN
                     /\ stk' = Append(SubSeq(stk, 1, Len(stk) - n), Lhs(Gc, r))
                     /\ vstk' = Append(SubSeq(vstk, 1, Len(vstk) - n),
                                       EvalAct(cs, r, SubSeq(vstk, Len(vstk) - n + 1, Len(vstk))))
                     /\ dok' = dok
                ELSE /\ dok' = FALSE /\ UNCHANGED <<stk, vstk>>
          /\ UNCHANGED <<phase, cs, variant, input, la, laval, fetched, outc, ref, prev, eref>>

\* lines this specification does not interpret (trace output, stray prints)
Skip == /\ (Ev("other") \/ Ev("shift") \/ Ev("reduce") \/ Ev("nest")) /\ phase = "run"
        /\ UNCHANGED <<phase, run, outc, ref, prev, eref>>

EndRun == /\ Ev("end") /\ phase = "run"
          /\ phase' = "ended"
          /\ verdict' = Trace[l].verdict /\ val' = Trace[l].val /\ nfetch' = Trace[l].nfetch
          /\ ref' = IF ref = NoSum
                    THEN [verdict |-> Trace[l].verdict, reds |-> reds, val |-> Trace[l].val, nfetch |-> Trace[l].nfetch, variant |-> variant]
                    ELSE ref
          /\ UNCHANGED <<run, prev, eref>>

Next == Reset \/ Fetch \/ DoReduce \/ Skip \/ EndRun
Spec == Init /\ [][Next]_vars

\* every line of the trace was consumed: one state per consumed line plus one
\* initial state per group (l is part of the state, so these are all distinct)
TraceAccepted == TLCGet("stats").distinct = Len(Trace) + Cardinality(GroupStarts)

-----------------------------------------------------------------------------
Ended  == phase = "ended"
Sum    == [verdict |-> verdict, reds |-> reds, val |-> val, nfetch |-> nfetch, variant |-> variant]
\* (a run cut off as diverging is compared by its verdict only: where exactly the driver gave up is not behaviour)
SameRun(a, b) == /\ a.verdict = b.verdict
                 /\ a.verdict # "diverge" => (a.reds = b.reds /\ a.val = b.val /\ a.nfetch = b.nfetch)
ERef   == eref    \* membership / first-bad reference of the current input, computed once per group (at the first reset)

SRef == Run(Gc, STab[cs], input)      \* the specification's own resolved table on the current input
C01_Run == (Ended /\ verdict = "accept") =>
             /\ dok
             /\ stk = <<StartSym(Gc)>>
             /\ la = End
             /\ fetched = input \o <<End>>
C02_Run == (Ended /\ STab[cs].conflictfree /\ ERef.status = "accept") => verdict = "accept"
\* C06 in one invariant so that the Earley reference is computed once per run:
\*  (a) the outcome class is accept or the documented syntax error (divergence only on conflicted grammars);
\*  (b) an input outside L(G) is never answered with a result, whatever the grammar;
\*  (c) on conflict-free grammars the error comes exactly when the first bad token has been fetched.
C06_Run == Ended =>
  LET e == ERef IN
  /\ (verdict \in {"accept", "syntaxerr"} \/ (verdict = "diverge" /\ ~STab[cs].conflictfree))
  /\ (verdict = "accept" => e.status = "accept")
  /\ (STab[cs].conflictfree /\ e.status = "error") =>
        /\ verdict = "syntaxerr"
        /\ nfetch = e.pos
        /\ fetched = SubSeq(input \o <<End>>, 1, e.pos)
  \*  (d) on a grammar whose conflicts are all decided by the rules of C04 the resolved table is the reference: what it
  \*      rejects (in particular through a %nonassoc error entry) is reported as a syntax error, never answered with a result
  /\ (~STab[cs].conflictfree /\ STab[cs].decided /\ SRef.status = "error") => verdict = "syntaxerr"
\* C04 (behaviour): grammar with conflicts that are all decided by the C04 rules:
\* the generated parser does what the specification's resolved table does
C04_Run == (Ended /\ STab[cs].decided /\ ~STab[cs].conflictfree /\ SRef.status # "diverge") =>
              /\ (verdict = "accept") <=> (SRef.status = "accept")
              /\ (verdict = "syntaxerr") <=> (SRef.status = "error")
              /\ reds = SRef.reds
              /\ nfetch = SRef.pos
\* C04, last sentence, without LR machinery: an operator grammar groups every expression the way the
\* declarations say - the reductions of the real run are the post-order of the precedence-climbing tree
C04_ClimbRun == (Ended /\ SShape[cs]) =>
              /\ verdict \in {"accept", "syntaxerr"}
              /\ (verdict = "accept") <=> (Climb(Gc, input).status = "accept")
              /\ (verdict = "accept") => reds = Climb(Gc, input).reds
C07_Value == (Ended /\ verdict = "accept" /\ Cases[cs].valued /\ dok /\ Len(vstk) = 1) =>
                AsStr(vstk[1], TagOf(cs, StartSym(Gc))) = val
C08_Agree == (Ended /\ ref.variant # variant) => SameRun(Sum, ref)
C05_Agree == (Ended /\ ((variant = "go-u" /\ prev.variant = "go") \/ (variant = "go-o-u" /\ prev.variant = "go-o")))
                => SameRun(Sum, prev)
=============================================================================
