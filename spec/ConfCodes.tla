------------------------------ MODULE ConfCodes ------------------------------
(***************************************************************************)
(* C11 conformance: codes recorded in-process (Symbol.Value), constants and  *)
(* translate() as the BUILT generated programs report them (Go default, -u,  *)
(* -o and TypeScript), against TokenCodes.tla.                               *)
(***************************************************************************)
EXTENDS TokenCodes, TLC, Json
Obs == JsonDeserialize("obs.json")
VARIABLE m
Init == m \in DOMAIN Obs
Next == UNCHANGED m
Spec == Init /\ [][Next]_m
O == Obs[m]
D == O.terms
Code == [n \in Names(D) |-> (CHOOSE i \in DOMAIN D : D[i].name = n) ]
CodeOf == [n \in Names(D) |-> D[Code[n]].code]

C11_Accepted   == UserOK(D) => O.outcome = "ok"
C11_AllPresent == O.outcome = "ok" => \A i \in DOMAIN D : D[i].present
C11_Numbering  == (O.outcome = "ok" /\ UserOK(D)) => WellNumbered(D, CodeOf)
C11_Consts     == O.outcome = "ok" =>
  \A v \in DOMAIN O.variants : O.variants[v].ok =>
     LET cs == O.variants[v].consts IN
     /\ {cs[k].name : k \in DOMAIN cs} = {D[i].name : i \in {i \in DOMAIN D : D[i].named}}
     /\ \A k \in DOMAIN cs : cs[k].code = CodeOf[cs[k].name]
C11_Translate  == (O.outcome = "ok" /\ UserOK(D)) =>
  \A v \in DOMAIN O.variants : O.variants[v].ok =>
     LET ps == O.variants[v].probes
         hits == {<<ps[k].c, ps[k].sym>> : k \in {k \in DOMAIN ps : ps[k].sym # "ERR"}}
         inrange(c) == (c >= O.lo /\ c <= O.hi) \/ c \in {233, 223, 955, 70000, -100}
     IN hits = {p \in ExpectedTranslate(D, CodeOf) : inrange(p[1])}
C11_Built      == O.outcome = "ok" => (Len(O.variants) = 4 /\ \A v \in DOMAIN O.variants : O.variants[v].ok)
=============================================================================
