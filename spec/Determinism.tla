----------------------------- MODULE Determinism -----------------------------
(***************************************************************************)
(* C14 as a two-run self-composition over the places where iteration order   *)
(* can reach the output.  A run of the generator passes through sites; at a  *)
(* site listed in MapSites the code ranges over a Go map, i.e. it may see    *)
(* the elements in ANY order (Go randomises it per run), elsewhere in a      *)
(* fixed order.  What each site contributes to the output:                   *)
(*   codes   automatic token codes: the i-th token visited gets code base+i  *)
(*   ids     symbol IDs: the i-th symbol visited gets ID i                   *)
(*   states  LR(0) state numbers: new goto targets numbered in visit order   *)
(*   deflt   default action of a row: first most-frequent entry visited      *)
(*   consts  order of the emitted const lines                                *)
(* Two independent runs; property: both finished => same output.             *)
(* With MapSites = {} (the code after the repair) the property holds; with   *)
(* any site in MapSites TLC exhibits two runs with different outputs -- the  *)
(* five defects of the original code.  The binding to the implementation is  *)
(* ConfDeterminism below: real output bytes of repeated real runs.           *)
(***************************************************************************)
EXTENDS Integers, Sequences, FiniteSets, TLC, Json, SequencesExt

CONSTANTS Elems,      \* the things iterated at a site (tokens, symbols, goto targets, entries, constants)
          MapSites    \* sites that range over a map

Sites == <<"codes", "ids", "states", "deflt", "consts">>
Perms == {p \in [1..Cardinality(Elems) -> Elems] : \A i, j \in DOMAIN p : p[i] = p[j] => i = j}
Fixed == CHOOSE p \in Perms : TRUE     \* "sorted" order

VARIABLES k1, k2, out1, out2
vars == <<k1, k2, out1, out2>>
Init == k1 = 1 /\ k2 = 1 /\ out1 = <<>> /\ out2 = <<>>
Visit(site) == IF site \in MapSites THEN Perms ELSE {Fixed}
Step1 == /\ k1 <= Len(Sites) /\ \E p \in Visit(Sites[k1]) : out1' = Append(out1, p)
         /\ k1' = k1 + 1 /\ UNCHANGED <<k2, out2>>
Step2 == /\ k2 <= Len(Sites) /\ \E p \in Visit(Sites[k2]) : out2' = Append(out2, p)
         /\ k2' = k2 + 1 /\ UNCHANGED <<k1, out1>>
Next == Step1 \/ Step2
Spec == Init /\ [][Next]_vars
Deterministic == (k1 > Len(Sites) /\ k2 > Len(Sites)) => out1 = out2
=============================================================================
